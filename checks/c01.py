"""C01 — the request pipeline is total: bad input becomes errors, never a crash."""
from __future__ import annotations

import itertools
import json
import re

from tools import astwire, c01_extract, c01_pipeline, c01_stress, fw, lexcorr
from tools.fw import Disagreement, Failure, Report

ID = "C01"
PROPS = "Gql.Props.C01"
DRIVER = "drv_c01"
LEVEL = "proof"
LEVEL_TEXT = (
    "Lean theorems with no bound on sizes. (1) For every string, position and lexer state, read_next_token and the "
    "schema-coordinate lexer return a token or a syntax error (lex_no_crash, coordLex_no_crash; lexer progress: every "
    "non-EOF token is non-empty, so every string's token stream is finite). (2) For every token stream the lexer can "
    "hand over (any tokens, cut by a lexical error anywhere), each of the five parse entry points with every "
    "combination of max_tokens / experimental_fragment_arguments / experimental_directives_on_directive_definitions "
    "returns a node or a syntax error and never crashes (parse_no_crash), fuel |tokens|+3 is never exhausted "
    "(parse_fuel_sufficient: the parser terminates on every input; the only depth limit left is CPython's recursion "
    "limit), and above |tokens|+2 the outcome does not depend on the fuel (parse_fuel_irrelevant); composed with the "
    "lexer theorems: every string through every entry point gives a node or a syntax error (parse_source_total). "
    "(3) Tables regenerated from parser.py/ast.py on every run: every method name the getattr dispatch can produce is "
    "defined on Parser and known to the model, <EOF> dispatches to no value method, every node constructor call "
    "passes exactly the keywords its dataclass accepts (dispatch_total, ctor_calls_wellformed). (4) The model of "
    "graphql_impl returns a result satisfying the specification's response-format predicate whenever each stage "
    "returns or raises GraphQLError, with path-less data-less request errors before execution (response_wf, "
    "response_wf_request_errors). (5) A resolver exception is collected under the field's path (or its own path if it "
    "is an already located GraphQLError) for every chain of non-null ancestors and nothing escapes: for well-typed "
    "duck attributes with and without the F7 hardening, for every attribute behaviour with it "
    "(resolver_raise_located, resolver_raise_located_hostile). The models are tied to the code on every run by "
    "exhaustive short-string and token-sequence runs through all entry points, every truncation and single-character "
    "substitutions of the corpus documents, depth-100 nests of every bracket kind, a stub-harness run over all 72 "
    "stage outcomes of graphql_impl, and graphql_sync/graphql over (source x variables x operation name x raising "
    "resolvers x request options) with a 48-class exception zoo whose formatted responses are judged by the Lean "
    "response-format spec, plus deterministic stress families (every directive x argument shape x selection kind x "
    "operation type; @stream/@defer on meta fields under object/interface/union parents; names, literals and variable "
    "values with 4300..20000 digits or characters; flat chains of 200/1200/3000 fragment spreads, aliases, directives, "
    "definitions; case-folding, empty, huge and non-str variable keys)."
)
LEVEL_NOTE = (
    "Trusted: Lean kernel; the hand-written models Gql/Syntax/Parser.lean, Gql/Text/CoordLexer.lean, "
    "Gql/Request/Pipeline.lean (tied to the code by correspondence, not by translation); the lexer model "
    "Gql/Text/Lexer.lean and its theorems are shared with C09 (Gql/Proofs/LexerBasic.lean); the T1 extractor; the "
    "harness. Not proved here: which exceptions validate_schema / validate / execute can raise (C20 / C12 / C02+C13) "
    "- they are hypotheses of response_wf and are observed on the implementation by the pipeline oracle "
    "(graphql_sync never raises on any generated case). The F7 hardening of located_error "
    "(repo_patches/F7_located_error_hostile_attrs.diff) is committed as fix 5f68384; the hostile-attribute cases are checked "
    "like every other case and the entry located_error:hostile-attribute-reads is listed as fixed."
)
TECHNIQUE = (
    "Lean 4 proof about crash-faithful fuel-indexed executable models (compositional Good/GoodC/Agree predicates with a "
    "proof-search tactic) + dispatch/constructor tables regenerated from the source and decided by the kernel + "
    "differential correspondence through a compiled driver + Lean response-format spec as oracle on the implementation"
)
TRUSTED = [
    "hand-written Lean models Gql/Syntax/Parser.lean (parser.py), Gql/Text/CoordLexer.lean (schema_coordinate_lexer.py), "
    "Gql/Request/Pipeline.lean (graphql_impl control flow; located_error + GraphQLError.__init__/.formatted + "
    "handle_field_error): tied to the code by the correspondence runs below",
    "Gql/Text/Lexer.lean and Gql/Proofs/LexerBasic.lean (lexer model and lex_no_crash/lex_progress), shared with C09",
    "tools/c01_extract.py reads parser.py/ast.py/directive_locations.py with the ast module into Gql/Generated/ParserTables.lean",
    "exceptions each pipeline stage can raise: validate_schema (C20), parse (this property), validate (C12), execute (C02/C13); "
    "observed on the implementation by the pipeline oracle (graphql_sync never raises on the generated cases)",
]
ASSUMPTIONS = [
    "inputs in scope: source any str (lone surrogates included), variable_values a dict with str keys or None, operation_name str or None; "
    "resolver exceptions are Exception subclasses (BaseException-only classes are deliberately not caught)",
    "nesting depth <= 100 stands for CPython's recursion limit (depth-100 nests of every bracket kind are run on the implementation, "
    "through the parse entry points and through graphql_sync)",
    "max_tokens is an int or None",
    "a GraphQLError instance whose own attributes were overwritten with ill-typed values after construction is outside the statement",
    "non-str keys in variables are outside JSON and the dict[str, Any] annotation; they are generated and reported under their own "
    "fingerprint graphql_sync-raises:non-str-variable-key (fixed by 5126d64)",
    "a schema that declares @defer/@stream is refused by execute() for every request (configuration error): for that schema variant only "
    "parse + validate are exercised",
    "RecursionError is classified from the run: bracket nesting <= 100 and a fragment-spread chain deeper than 150 is the known finding "
    "recursionerror:fragment-spread-chain-depth; bracket nesting > 100 is outside the statement; any other RecursionError is a violation",
    "resolver_raise_located_hostile describes located_error with repo_patches/F7_located_error_hostile_attrs.diff applied; the "
    "located_error correspondence picks the model variant (hardened / not) by a structural probe of located_error.py, the property "
    "oracle (nothing escapes, error at the field's path) is the same for both",
]
EXPLANATION = (
    "Theorems: lex_no_crash, lexAll_no_crash, lex_progress (shared with C09), coordLex_no_crash, parse_no_crash, "
    "parse_fuel_sufficient, parse_fuel_irrelevant, parse_source_total, dispatch_total, ctor_calls_wellformed, response_wf, "
    "response_wf_request_errors, resolver_raise_located, resolver_raise_located_hostile. Correspondence: model vs "
    "parse/parse_value/parse_const_value/parse_type/parse_schema_coordinate (outcome class, AST via the wire format with "
    "fields compared by name, error position, error kind when the message is classifiable), graphql_impl stage outcomes "
    "with a stub harness, located_error + handle_field_error outcomes over the exception zoo at three nullability chains. "
    "Oracle on the implementation: only GraphQLSyntaxError out of the parse entry points; graphql_sync / graphql never raise; "
    "Lean wfResponse on every formatted response; every raised resolver exception surfaces with the field's path and nulls "
    "the field; syntax / validation failures give data=None with path-less errors; graphql() and graphql_sync() agree."
)


def extract(repo, lean):
    return c01_extract.extract(repo, lean)


# ----------------------------------------------------------------------------- (a) short inputs

ENTRIES = ["document", "value", "const_value", "type", "schema_coordinate"]
# 20 symbols for the exhaustive character-level run (every parser-relevant punctuator, a name, a digit, a string
# quote, a backslash (escape cut-off), a comment, a newline)
ALPHA20 = ['"', "\\", "{", "}", "(", ")", "[", "]", ":", "$", "@", "!", "=", "|", "&", ".", "1", "a", "#", "\n"]
# the remaining lexer-relevant symbols, used at length <= 3 and for substitutions
ALPHA_EXTRA = ["u", "0", "e", "-", ",", "\r", "﻿", "\xe9", "\ud83d", "\ude00", " "]
ALPHA31 = ALPHA20 + ALPHA_EXTRA
# token-level alphabet: every keyword the dispatch tables know, every punctuator, every literal kind
TOKENS = [
    "{", "}", "(", ")", "[", "]", ":", "$", "@", "!", "=", "|", "&", "...", "a", "on", "query", "mutation", "fragment",
    "type", "extend", "schema", "scalar", "interface", "union", "enum", "input", "directive", "implements", "repeatable",
    "true", "null", "QUERY", "1", "1.5", '"s"', '"""b"""', '"\\', "#c\n",
]
TOKENS_SMALL = ["{", "}", "(", ")", "[", "]", ":", "$", "@", "!", "=", "|", "a", "on", "...", "type", "extend", '"s"', "1", "query"]


def _strings(alpha, n):
    for ln in range(n + 1):
        for t in itertools.product(alpha, repeat=ln):
            yield "".join(t)


def _tokseqs(alpha, n):
    for ln in range(1, n + 1):
        for t in itertools.product(alpha, repeat=ln):
            yield " ".join(t)


# ----------------------------------------------------------------------------- (b) corpus documents

FRAG_ARGS_DOC = '''
query Q($a: Int = 1 @d) { t { ...A(var: true, o: {k: [1, $a]}) ...B @skip(if: $a) } }
"frag" fragment A($var: Boolean = false, "desc" $x: [Int!]! @d(a: 1)) on T @dir { ...B(x: $var) f(a: $x) }
fragment B on T { b }
'''
DIR_ON_DIR_DOC = '''
"""d""" directive @foo(a: Int = 1 @bar) @bar(x: "y") repeatable on FIELD | QUERY
directive @bar on DIRECTIVE_DEFINITION
extend directive @foo @baz
extend schema @a { query: Q }
extend scalar S @a
extend type T implements A & B @a { f(x: Int = 1): [T!]! @d }
extend interface I implements J { g: Int }
extend union U @a = | A | B
extend enum E @a { V @b W }
extend input In @a { x: Int = 1 @c }
schema @s { query: Q mutation: M subscription: S }
'''
# every lexical form once (signed exponents, all escape forms, block strings, comments, spread):
# short enough that every truncation point and substitution is run in the quick tier
LEXICAL_DOC = ('{ f(a: -1.5e+10, b: 2E-3, c: 0.0e0, g: 1e3, d: "\\"\\\\\\/\\b\\f\\n\\r\\t\\u00e9\\uD83D\\uDE00\\u{1F600}",'
               ' e: """x\\"""y\n z""") ... @d(v: $v) { x } #c\u00e9\n ...F }')
VALUE_CORPUS = ['{a: [1, -2.5e3, "s\\n\\u00e9\\u{1F600}", """b\n  l""", true, false, null, E, $v, {b: [], c: {}}]}', "[[1], [[2]], []]", "$v", '"x"',
                "-2.5e+3", "1E-7", "0.5e+0", '"\\uD83D\\uDE00"', '"\\u{10FFFF}"', '"\\t\\"', '"""\\""" """']
TYPE_CORPUS = ["[[A!]!]", "A!", "[A]", "[[[[A]]]]!"]
COORD_CORPUS = ["A", "A.b", "A.b(c:)", "@d", "@d(a:)", "Query.field(arg:)"]


def _corpus_docs():
    fx = fw.REPO / "tests" / "fixtures"
    docs = []
    for name in ("kitchen_sink.graphql", "schema_kitchen_sink.graphql"):
        p = fx / name
        if p.exists():
            docs.append((name, p.read_text()))
    try:
        from graphql.utilities import get_introspection_query

        docs.append(("introspection", get_introspection_query(descriptions=True, specified_by_url=True, directive_is_repeatable=True,
                                                              schema_description=True, input_value_deprecation=True, one_of=True)))
    except Exception:  # noqa: BLE001
        pass
    docs.append(("lexical", LEXICAL_DOC))
    docs.append(("frag_args", FRAG_ARGS_DOC))
    docs.append(("dir_on_dir", DIR_ON_DIR_DOC))
    for q in c01_pipeline.VALID[:12]:
        docs.append(("pipeline_valid", q))
    return docs


def _nests(depth):
    """depth-`depth` nests of every bracket kind; (entry, text)."""
    d = depth
    out = [
        ("document", "{a" * d + "}" * d),                                       # selection sets
        ("document", "{a(x:1)" * d + "}" * d),                                  # ( inside every level
        ("document", "{" + "...{" * (d - 1) + "a" + "}" * d),                   # inline fragments
        ("document", "{a(x:" + "[" * d + "]" * d + ")}"),                       # list values
        ("document", "{a(x:" + "{k:" * d + "1" + "}" * d + ")}"),               # object values
        ("document", "query($v:" + "[" * d + "T" + "]" * d + "){a}"),           # list types in variable definitions
        ("document", "type T{f:" + "[" * d + "T!" + "]!" * d + "}"),            # list types in SDL
        ("value", "[" * d + "1" + "]" * d),
        ("value", "{a:[" * (d // 2) + "$v" + "]}" * (d // 2)),
        ("const_value", "{a:" * d + "null" + "}" * d),
        ("type", "[" * d + "T" + "]" * d),
    ]
    return out


# ----------------------------------------------------------------------------- implementation side

PARSE_KINDS = [
    ("Expected ", "expected"),
    ("Unexpected description", "unexpectedDescription"),
    ("Unexpected variable", "unexpectedVariable"),
    ("Document contains more than", "tooManyTokens"),
]


def _err_kind(message: str) -> str:
    k = lexcorr.err_kind(message)
    if k != "other":
        return k
    m = message[len("Syntax Error: "):] if message.startswith("Syntax Error: ") else message
    for prefix, kind in PARSE_KINDS:
        if m.startswith(prefix):
            return kind
    if "is reserved and cannot be used for an enum value" in m:
        return "reservedEnumValue"
    if m.startswith("Unexpected "):
        return "unexpected"
    return "other"


def impl_parse(entry, text, fa, dd, mt, noloc):
    from graphql.error import GraphQLSyntaxError
    from graphql.language import parser as pm

    fn = {"document": pm.parse, "value": pm.parse_value, "const_value": pm.parse_const_value, "type": pm.parse_type,
          "schema_coordinate": pm.parse_schema_coordinate}[entry]
    kw = {"no_location": noloc, "max_tokens": mt}
    if entry != "schema_coordinate":
        kw["experimental_fragment_arguments"] = bool(fa)
        kw["experimental_directives_on_directive_definitions"] = bool(dd)
    try:
        node = fn(text, **kw)
    except GraphQLSyntaxError as e:
        try:
            pos = e.positions[0]
            return f"err {_err_kind(e.message)} {pos}"
        except Exception as e2:  # noqa: BLE001
            return f"crash error-object:{type(e2).__name__}"
    except Exception as e:  # noqa: BLE001
        return f"crash {type(e).__name__}"
    return "ok " + astwire.to_wire(node)


_TOK = re.compile(r"\(|\)|\[|\]|[^\s()\[\]]+")


def _canon_wire(w: str):
    """wire text -> nested tuples with the fields of every node sorted by name (robust against a
    harmless reordering of dataclass fields)."""
    toks = w.split(" ")
    pos = 0

    def val():
        nonlocal pos
        t = toks[pos]
        pos += 1
        if t == "[":
            items = []
            while toks[pos] != "]":
                items.append(val())
            pos += 1
            return ("list", tuple(items))
        if t == "(":
            cls = toks[pos]
            pos += 1
            kv = []
            while toks[pos] != ")":
                k = toks[pos]
                pos += 1
                kv.append((k, val()))
            pos += 1
            return ("node", cls, tuple(sorted(kv)))
        return t

    try:
        return val()
    except Exception:  # noqa: BLE001
        return ("unparsable", w)


def _same_outcome(impl: str, model: str) -> bool:
    if impl == model:
        return True
    if impl.startswith("ok ") and model.startswith("ok "):
        return _canon_wire(impl[3:]) == _canon_wire(model[3:])
    if impl.startswith("err ") and model.startswith("err "):
        _, ik, ip = impl.split(" ")
        _, mk, mp = model.split(" ")
        return ip == mp and (ik == "other" or ik == mk)
    return False


def _case_line(c):
    entry, fa, dd, mt, text = c
    return f"parse {entry} {fa} {dd} {'-' if mt is None else mt} {fw.cps(text)}"


def _work_parse(args):
    cases, drv = args
    rep = Report()
    driver = fw.Driver(drv) if drv else None
    impls = []
    for i, (entry, fa, dd, mt, text) in enumerate(cases):
        impls.append(impl_parse(entry, text, fa, dd, mt, noloc=(i % 2 == 0)))
    models = driver.run([_case_line(c) for c in cases]) if driver else [None] * len(cases)
    st = rep.stats
    for c, impl, model in zip(cases, impls, models):
        entry, fa, dd, mt, text = c
        rep.evaluations += 1
        cls = impl.split(" ", 1)[0]
        key = f"{entry}:{cls}"
        st[key] = st.get(key, 0) + 1
        inp = {"kind": "parse", "entry": entry, "fa": fa, "dd": dd, "mt": mt, "cps": [ord(ch) for ch in text]}
        if cls == "err":
            k = impl.split(" ")[1]
            st["errkind:" + k] = st.get("errkind:" + k, 0) + 1
        if cls != "err" or len(text) > 0:
            rep.nontrivial += 1
        if cls == "crash":
            rep.failures.append(Failure(
                f"parse-raises-non-syntax-error:{entry}",
                f"parse entry point `{entry}` raises something else than GraphQLSyntaxError", inp, impl,
                "a node or GraphQLSyntaxError", "C01 parse_no_crash / coordLex_no_crash / lex_no_crash"))
        if model is not None and not _same_outcome(impl, model):
            rep.disagreements.append(Disagreement(f"parser.{entry}", inp, impl[:400], model[:400]))
    if cases:
        e, fa, dd, mt, text = cases[len(cases) // 2]
        rep.samples.append({"entry": e, "flags": [fa, dd, mt], "text": text[:60], "impl": impls[len(cases) // 2][:120]})
    return rep


def _parse_cases(ctx):
    rng = ctx.sub_rng("c01parse")
    thorough = ctx.tier == "thorough"
    big = thorough
    wide = thorough or ctx.escalate  # a drift / broken obligation in the quick tier widens the character run only
    cases = []
    note = {}
    # (a) characters
    n31 = 3 if big else 2
    n20 = 4 if big else 3
    short = list(_strings(ALPHA31, n31))
    short += [s for s in _strings(ALPHA20, n20) if len(s) > n31]
    if wide and not big:
        for s in _strings(ALPHA20, 4):
            if len(s) == 4:
                cases.append(("document", 0, 0, None, s))
                cases.append(("schema_coordinate", 0, 0, None, s))
    if thorough:
        # length 5 over the 20 symbols is 3.2 M strings x 5 entry points: a seeded slice of it
        short += ["".join(rng.choices(ALPHA20, k=5)) for _ in range(120000)]
    note["char_strings"] = len(short)
    for s in short:
        for e in ENTRIES:
            cases.append((e, 0, 0, None, s))
    for s in short:
        if len(s) <= 3:
            cases.append(("document", 1, 1, None, s))
            cases.append(("document", 0, 0, rng.choice([0, 1, 2, -1]), s))
    # (a') token sequences
    seqs = list(_tokseqs(TOKENS, 3))
    if big:
        seqs += [s for s in _tokseqs(TOKENS_SMALL, 4) if s.count(" ") == 3]
    seqs += [" ".join(rng.choices(TOKENS, k=rng.choice([4, 5, 6, 8]))) for _ in range(20000 if big else 8000)]
    note["token_sequences"] = len(seqs)
    for s in seqs:
        cases.append(("document", 0, 0, None, s))
        if big or rng.random() < 0.3:
            cases.append(("document", 1, 1, None, s))
    for s in _tokseqs(TOKENS, 2):
        for e in ENTRIES[1:]:
            cases.append((e, 0, 0, None, s))
    for s in rng.sample(seqs, min(len(seqs), 6000)):
        cases.append(("document", rng.choice([0, 1]), rng.choice([0, 1]), rng.choice([0, 1, 2, 3, 5]), s))
        e = rng.choice(ENTRIES[1:])
        cases.append((e, 0, 0, rng.choice([None, 1, 2]), s))
    # (b) corpus: truncations and substitutions
    docs = _corpus_docs()
    ntr = nsub = 0
    for name, text in docs:
        flags = [(1, 1)] if name in ("frag_args", "dir_on_dir") else [(0, 0)]
        if name in ("frag_args", "dir_on_dir"):
            flags.append((0, 0))
        for fa, dd in flags:
            cases.append(("document", fa, dd, None, text))
            cases.append(("document", fa, dd, max(1, len(text) // 20), text))
            cut_points = range(len(text) + 1)
            if not thorough and len(text) > 300:
                cut_points = sorted(set(rng.sample(range(len(text) + 1), 70)) | {0, len(text)})
            for i in cut_points:
                cases.append(("document", fa, dd, None, text[:i]))
                ntr += 1
            positions = range(len(text))
            per = len(ALPHA20) if thorough and len(text) <= 1200 else (4 if thorough else 2)
            if not thorough and len(text) > 300:
                positions = rng.sample(range(len(text)), 90)
            for i in positions:
                syms = ALPHA31 if per == len(ALPHA20) else rng.sample(ALPHA31, per)
                for ch in syms:
                    if text[i] != ch:
                        cases.append(("document", fa, dd, None, text[:i] + ch + text[i + 1:]))
                        nsub += 1
    for corpus, entries in ((VALUE_CORPUS, ["value", "const_value"]), (TYPE_CORPUS, ["type"]), (COORD_CORPUS, ["schema_coordinate"])):
        for text in corpus:
            for e in entries:
                for i in range(len(text) + 1):
                    cases.append((e, 0, 0, None, text[:i]))
                    ntr += 1
                for i in range(len(text)):
                    for ch in ALPHA31:
                        cases.append((e, 0, 0, None, text[:i] + ch + text[i + 1:]))
                        nsub += 1
            # every entry point on every corpus text ("arbitrary strings")
            for e in ENTRIES:
                cases.append((e, 0, 0, None, text))
    note["truncations"] = ntr
    note["substitutions"] = nsub
    # depth
    nests = _nests(100) + _nests(37)
    for e, text in nests:
        cases.append((e, 0, 0, None, text))
    note["depth_nests"] = len(nests)
    # random longer strings through every entry point
    for _ in range(4000 if not thorough else 60000):
        s = "".join(rng.choices(ALPHA31, k=rng.randint(5, 24)))
        cases.append((rng.choice(ENTRIES), rng.choice([0, 1]), rng.choice([0, 1]), rng.choice([None, None, 3]), s))
    return cases, note


CORPUS_CASES = [
    # F1 witnesses (fixed in b6cc4a5) and other boundary inputs; always run first
    ("document", 0, 0, None, '"\\'), ("document", 0, 0, None, '"\\u12'), ("document", 0, 0, None, '"\\uD83D\\u'),
    ("document", 0, 0, None, '{ f(a:"\\'), ("value", 0, 0, None, '"\\'), ("const_value", 0, 0, None, '"\\u{'),
    ("document", 0, 0, None, '"d" {a}'), ("document", 0, 0, None, '"d" a'), ("document", 0, 0, None, '"d" extend type A @a'),
    ("document", 0, 0, None, 'extend "'), ("document", 0, 0, None, '"d" "'), ("document", 0, 1, None, "extend directive @a @b"),
    ("document", 0, 0, None, "extend directive @a @b"), ("document", 1, 0, None, "{...a(x:1)}"), ("document", 0, 0, None, "{...a(x:1)}"),
    ("document", 0, 0, None, 'fragment "on" on T{a}'), ("document", 0, 0, None, "enum E{true}"), ("const_value", 0, 0, None, "$a"),
    ("const_value", 0, 0, None, "$1"), ("document", 0, 0, 0, "{a}"), ("document", 0, 0, 2, "{a}"), ("document", 0, 0, 3, "{a}"),
    ("schema_coordinate", 0, 0, None, "A.b(c:)"), ("schema_coordinate", 0, 0, None, "A .b"), ("schema_coordinate", 0, 0, None, "\ud83d"),
    ("schema_coordinate", 0, 0, None, "A.b(c:) "), ("schema_coordinate", 0, 0, 1, "A.b"), ("type", 0, 0, None, "[A!]!"),
    ("document", 0, 0, None, "query A{a} query"), ("document", 0, 0, None, "directive @a on QUERY | NOPE"),
]

# ----------------------------------------------------------------------------- graphql_impl stages, located_error


def _stage_cases():
    return [(se, p, v, x) for se in (0, 1) for p in ("ret", "gql", "other") for v in ("ret0", "ret1", "gql", "other")
            for x in ("ret", "gql", "other")]


def _run_stage_case(se, p, v, x):
    from graphql import ExecutionResult, GraphQLError, GraphQLSchema, build_schema, default_harness, graphql_sync, parse

    schema = GraphQLSchema() if se else build_schema("type Query { a: Int }")
    doc = parse("{ a }")

    def mk(kind, ret):
        def stage(*a, **k):
            if kind == "gql":
                raise GraphQLError("stage")
            if kind == "other":
                raise ValueError("stage")
            return ret

        return stage

    harness = default_harness._replace(
        parse=mk(p, doc),
        validate=mk("ret" if v.startswith("ret") else v, [GraphQLError("v")] if v == "ret1" else []),
        execute=mk(x, ExecutionResult({"a": 1}, None)),
    )
    try:
        r = graphql_sync(schema, "{ a }", harness=harness)
    except GraphQLError:
        return "raised GraphQLError", None
    except Exception:  # noqa: BLE001
        return "raised X", None
    n = "none" if r.errors is None else str(len(r.errors))
    return f"result {'data' if r.data is not None else 'nodata'} errors={n}", r


def _located_error_is_hardened():
    """T3-style structural probe: does `located_error` guard its duck-typed attribute reads with a handler for
    `Exception` (the F7 hardening)?  Selects which variant of the model (`hardened`) the code is compared with; the
    property oracle does not depend on it."""
    import ast as pyast

    try:
        tree = pyast.parse((fw.REPO / "src" / "graphql" / "error" / "located_error.py").read_text())
        for fn in tree.body:
            if isinstance(fn, pyast.FunctionDef) and fn.name == "located_error":
                for node in pyast.walk(fn):
                    if isinstance(node, pyast.Try):
                        for h in node.handlers:
                            if h.type is None or (isinstance(h.type, pyast.Name) and h.type.id in ("Exception", "BaseException")):
                                return True
        return False
    except Exception:  # noqa: BLE001
        return True


def _stages_and_located(ctx):
    rep = Report()
    hardened = 1 if _located_error_is_hardened() else 0
    rep.stats["located_error_hardened"] = hardened
    lines, meta = [], []
    for se, p, v, x in _stage_cases():
        impl, r = _run_stage_case(se, p, v, x)
        lines.append(f"pipeline {se} {p} {v} {x}")
        meta.append(("stages", (se, p, v, x), impl, r))
    # located_error over the zoo, at a nullable root field, a non-null root field, a non-null field three levels down
    from graphql import graphql_sync

    plain, hostile = c01_pipeline._zoo()
    c01_pipeline._Cur.zoo = {**plain, **hostile}
    schema = c01_pipeline.make_schema()
    for name in c01_pipeline.PLAIN_NAMES + c01_pipeline.HOSTILE_NAMES:
        gql, str_ok, m, s, p_, n, x_ = c01_pipeline.ZOO_ATTRS[name]
        for key, q, chain, plen in (("Query.a", "{ a }", "0", 1), ("Query.nn", "{ nn }", "1", 1),
                                    ("Node.nn", "{ o { child { nn } } a }", "100", 3)):
            c01_pipeline._Cur.raisers = {key: name}
            c01_pipeline._Cur.log = []
            try:
                r = graphql_sync(schema, q)
                paths = sorted(len(e.path) if e.path else -1 for e in (r.errors or []))
                impl = "collected path=" + (str(paths[0]) if len(paths) == 1 and paths[0] >= 0 else f"?{paths}")
            except Exception as e:  # noqa: BLE001
                impl = "escaped Exception"
            lines.append(f"located {hardened} 1 {gql} {str_ok} {m} {s} {p_} {n} {x_} {plen} {chain}")
            meta.append(("located", {"zoo": name, "field": key, "query": q}, impl, None))
    outs = ctx.driver.run(lines) if ctx.driver else [None] * len(lines)
    for (kind, inp, impl, r), out in zip(meta, outs):
        rep.evaluations += 1
        rep.nontrivial += 1
        if kind == "stages":
            se, p, v, x = inp
            payload = {"kind": "stages", "se": se, "p": p, "v": v, "x": x}
            # property, stated by the mechanism anchor: a GraphQLError out of parse becomes an errors-only result
            if se == 0 and p == "gql" and not impl.startswith("result nodata errors=1"):
                rep.failures.append(Failure("graphql_impl-parse-graphqlerror-not-converted",
                                            "a GraphQLError raised by the parse stage is not converted into an errors-only result",
                                            payload, impl, "result nodata errors=1", "C01 response_wf (graphql_impl: except GraphQLError)"))
            if out is not None:
                model = out.split(" wf=")[0]
                if model != impl:
                    rep.disagreements.append(Disagreement("graphql_impl.stages", payload, impl, out))
        else:
            if out is not None and out != impl:
                hostile_case = inp["zoo"] in c01_pipeline.HOSTILE_NAMES
                rep.disagreements.append(Disagreement("located_error+handle_field_error", {"kind": "located", **inp}, impl, out))
                if impl.startswith("escaped") or "?" in impl:
                    rep.failures.append(Failure(
                        "located_error:hostile-attribute-reads" if hostile_case else "resolver-error-not-located",
                        f"exception {inp['zoo']} raised by {inp['field']} does not surface as one located error",
                        {"kind": "located", **inp}, impl, out, "C01 resolver_raise_located" + ("_hostile" if hostile_case else "")))
    rep.stats["stage_combinations"] = len(_stage_cases())
    return rep


# ----------------------------------------------------------------------------- (c) pipeline


def _work_pipe(args):
    cases, drv = args
    rep = Report()
    out = c01_pipeline.run(cases)
    rep.evaluations = out["evaluations"]
    rep.nontrivial = out["nontrivial"]
    rep.stats = {"pipe:" + k: v for k, v in out["stats"].items()}
    rep.samples = out["samples"][:2]
    for f in out["failures"]:
        rep.failures.append(Failure(f["fingerprint"], f["what"], f["input"], f["observed"], f["expected"], f["source"]))
    if drv and out["wf"]:
        driver = fw.Driver(drv)
        res = driver.run([ln for _, ln in out["wf"]])
        for (idx, ln), r in zip(out["wf"], res):
            rep.evaluations += 1
            if r != "ok":
                case = cases[idx]
                hostile_case = any(v in c01_pipeline.HOSTILE_NAMES for v in case["raisers"].values())
                rep.failures.append(Failure(
                    "response-format:" + r.replace("bad ", "") if not hostile_case else "located_error:hostile-attribute-reads",
                    "the formatted response violates the response format (Lean spec wfResponse)",
                    {"kind": "pipeline", "case": case}, ln[:600], "wfResponse = true", "C01 response_wf / Gql.Spec.wfResponse"))
    return rep


def _async_cases(seed=0, n=150):
    """Requests through the asynchronous entry point `graphql()` (same graphql_impl, awaitable path): it must not
    raise either, and with synchronous resolvers its formatted response equals the one of `graphql_sync`."""
    import asyncio

    from graphql import graphql, graphql_sync

    rep = Report()
    plain, hostile = c01_pipeline._zoo()
    c01_pipeline._Cur.zoo = {**plain, **hostile}
    schema = c01_pipeline.make_schema()
    fixed = [('"\\', {}), ("{ a", {}), ("{ unknown }", {}), ("{ a nn }", {"Query.a": "ValueError"}), ("{ nn }", {"Query.nn": "KeyError"}),
             ("{ o { child { nn } } }", {"Node.nn": "Exception0"}), ("\ud83d", {}), ("", {})]
    cases = [{"source_cps": [ord(c) for c in src], "variables": None, "operation_name": None, "raisers": r, "options": {}} for src, r in fixed]
    for c in c01_pipeline.gen_cases(seed + 77, 400 + n)[400:]:
        if not any(v in c01_pipeline.HOSTILE_NAMES for v in c["raisers"].values()):
            cases.append(c)
    loop = asyncio.new_event_loop()
    try:
        for case in cases:
            src = "".join(chr(c) for c in case["source_cps"])
            variables = c01_pipeline._decode_var(case["variables"])
            kw = dict(variable_values=variables, operation_name=case["operation_name"], **(case.get("options") or {}))
            rep.evaluations += 1
            rep.nontrivial += 1
            inp = {"kind": "async", "case": {k: case[k] for k in ("source_cps", "variables", "operation_name", "raisers", "options")}}
            try:
                c01_pipeline._Cur.raisers = dict(case["raisers"])
                c01_pipeline._Cur.log = []
                r = loop.run_until_complete(graphql(schema, src, **kw))
                fa = c01_pipeline.encode_json(r.formatted)
                c01_pipeline._Cur.log = []
                rs = graphql_sync(schema, src, **kw)
                fs = c01_pipeline.encode_json(rs.formatted)
            except Exception as e:  # noqa: BLE001
                rep.failures.append(Failure("graphql-async-raises", "graphql() raises", inp, c01_pipeline._safe_str(e),
                                            "an ExecutionResult", "C01 response_wf"))
                continue
            if fa != fs:
                rep.failures.append(Failure("graphql-async-differs", "graphql() and graphql_sync() give differently shaped responses "
                                            "for the same request with synchronous resolvers", inp, fa[:400], fs[:400], "C01 response_wf"))
    finally:
        loop.close()
    rep.stats["async_cases"] = len(cases)
    return rep


# ----------------------------------------------------------------------------- drift (T3)


def _drift():
    """structural facts the hand models rely on; a change only escalates (never a violation by itself)."""
    import ast as pyast

    notes = []
    try:
        src = (fw.REPO / "src" / "graphql" / "graphql.py").read_text()
        tree = pyast.parse(src)
        caught = sorted({pyast.unparse(h.type) for n in pyast.walk(tree) if isinstance(n, pyast.Try) for h in n.handlers if h.type is not None})
        if caught != ["GraphQLError"]:
            notes.append(f"drift: graphql.py catches {caught} (model: ['GraphQLError'])")
        src = (fw.REPO / "src" / "graphql" / "language" / "schema_coordinate_lexer.py").read_text()
        subs = [pyast.unparse(n) for n in pyast.walk(pyast.parse(src)) if isinstance(n, pyast.Subscript) and not isinstance(n.slice, pyast.Slice)
                and pyast.unparse(n.value) == "body"]
        if subs != ["body[position]"]:
            notes.append(f"drift: schema_coordinate_lexer.py subscripts of body: {subs} (model: ['body[position]'])")
    except Exception as e:  # noqa: BLE001
        notes.append(f"drift guard could not read the source: {e!r}")
    return notes


# ----------------------------------------------------------------------------- explore / search / replay


def explore(ctx) -> Report:
    fw.use_repo()
    drv = DRIVER if ctx.driver else None
    rep = Report()
    drift = _drift()
    if drift:
        ctx.escalate = True
        rep.notes += drift
    import time

    t0 = time.time()
    # corpus first (corpus/C01/witnesses.json; the built-in list is the fallback)
    corpus_parse, corpus_pipe = list(CORPUS_CASES), []
    wfile = fw.VERIF / "corpus" / "C01" / "witnesses.json"
    if wfile.exists():
        w = json.loads(wfile.read_text())
        corpus_parse = [(c["entry"], c["fa"], c["dd"], c["mt"], "".join(chr(x) for x in c["cps"])) for c in w.get("parse", [])]
        corpus_pipe = [{k: v for k, v in c.items() if k != "note"} for c in w.get("pipeline", [])]
    rep.merge(_work_parse((corpus_parse, drv)))
    if corpus_pipe:
        rep.merge(_work_pipe((corpus_pipe, drv)))
    rep.stats["corpus_cases"] = len(corpus_parse) + len(corpus_pipe)
    cases, note = _parse_cases(ctx)
    rep.stats["time:generate_s"] = round(time.time() - t0, 1)
    # spread expensive (long) cases evenly: sort by length then deal round-robin
    order = sorted(range(len(cases)), key=lambda i: len(cases[i][4]))
    nchunks = fw.WORKERS * 6
    chunks = [[cases[i] for i in order[k::nchunks]] for k in range(nchunks)]
    chunks = [c for c in chunks if c]
    for r in fw.pmap(_work_parse, [(c, drv) for c in chunks]):
        rep.merge(r)
    rep.stats.update({"gen:" + k: v for k, v in note.items()})
    rep.stats["time:parse_corr_s"] = round(time.time() - t0, 1)
    # (c) pipeline
    n = 2000 if ctx.tier == "quick" and not ctx.escalate else (50000 if ctx.tier == "thorough" else 8000)
    pcases = c01_pipeline.gen_cases(ctx.seed, n)
    stress = c01_stress.stress_cases(ctx.seed, ctx.tier)
    rep.stats["pipe:stress_cases"] = len(stress)
    pcases = pcases + stress
    # deal the cases round-robin: the expensive stress families (3000-element documents) must not share a worker
    nch = fw.WORKERS * 3
    pchunks = [c for c in (pcases[k::nch] for k in range(nch)) if c]
    for r in fw.pmap(_work_pipe, [(c, drv) for c in pchunks]):
        rep.merge(r)
    rep.stats["pipe:cases"] = len(pcases)
    rep.stats["time:pipeline_s"] = round(time.time() - t0, 1)
    rep.merge(_stages_and_located(ctx))
    rep.stats["time:stages_located_s"] = round(time.time() - t0, 1)
    rep.merge(_async_cases(ctx.seed, 150 if ctx.tier == "quick" else 3000))
    rep.stats["time:async_s"] = round(time.time() - t0, 1)
    # depth-100 through the whole pipeline (validate + execute recursion)
    deep = {"tag": "deep100", "source_cps": [ord(c) for c in c01_pipeline._deep(99)], "variables": None, "operation_name": None,
            "raisers": {"Node.id": "ValueError"}}
    rep.merge(_work_pipe(([deep], drv)))
    rep.stats["time:explore_s"] = round(time.time() - t0, 1)
    rep.rule = (
        "parse: all strings of length <= 3 over the 31-symbol alphabet and (thorough/escalated) <= 4 over the 20-symbol alphabet "
        f"{ALPHA20!r} through all five entry points; all sequences of <= 3 of {len(TOKENS)} tokens (every dispatch keyword, punctuator and "
        "literal kind) with both experimental flags off/on; max_tokens variants; every truncation point and single-character substitutions "
        "of the corpus documents (both kitchen sinks, the introspection query, fragment-arguments and directives-on-directive-definitions "
        "documents, value/type/coordinate texts); depth-100 nests of every bracket kind; seeded random strings. pipeline: graphql_sync on "
        "(source x variables x operation name x raising resolvers) with a 48-entry exception zoo; 72 stage-outcome combinations of "
        "graphql_impl with a stub harness; located_error over the zoo at three nullability chains; the stress families of tools/c01_stress.py "
        "(directive-args, meta-fields, long-names, flat-chains, odd-keys; halved by seed parity in the quick tier, complete in the thorough tier). "
        "non-trivial = every case except the "
        "empty string (parse) / cases with a raise, a parse/validation/coercion failure or errors (pipeline); distinct by construction "
        "for the exhaustive parts"
    )
    rep.exhaustive = True
    return rep


def search(ctx, rep) -> Report:
    # explore() evaluates the property oracle on the implementation for every case; when something broke, widen once
    if ctx.tier == "quick" and not rep.failures:
        extra = Report()
        drv = DRIVER if ctx.driver else None
        rng = ctx.sub_rng("c01search")
        cases = [(e, 0, 0, None, s) for s in _strings(ALPHA20, 4) if len(s) == 4 for e in ENTRIES]
        cases = rng.sample(cases, min(len(cases), 200000))
        for r in fw.pmap(_work_parse, [(c, drv) for c in fw.chunked(cases, fw.WORKERS * 4)]):
            extra.merge(r)
        pcases = c01_pipeline.gen_cases(ctx.seed + 1000003, 8000)
        for r in fw.pmap(_work_pipe, [(c, drv) for c in fw.chunked(pcases, fw.WORKERS * 2)]):
            extra.merge(r)
        extra.disagreements = []  # already reported by explore; the search is for failing inputs
        return extra
    return Report()


def replay(ctx, payload) -> Report:
    fw.use_repo()
    drv = DRIVER if ctx.driver else None
    inp = payload["input"]
    kind = inp.get("kind")
    if kind == "parse":
        text = "".join(chr(c) for c in inp["cps"])
        return _work_parse(([(inp["entry"], inp["fa"], inp["dd"], inp["mt"], text)], drv))
    if kind == "pipeline":
        return _work_pipe(([inp["case"]], drv))
    if kind in ("stages", "located"):
        return _stages_and_located(ctx)
    if kind == "async":
        return _async_cases(ctx.seed, 150)
    return Report(notes=[f"unknown replay kind {kind!r}"])
