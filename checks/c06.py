"""C06 — stopping early never hangs or leaks: work settles and sources are closed."""
from __future__ import annotations

import hashlib
import json

from tools import fw
from tools.fw import Disagreement, Failure, Report

ID = "C06"
PROPS = "Gql.Props.C06"
DRIVER = "drv_c06"
LEVEL = "proof"
LEVEL_TEXT = (
    "Lean theorems about the lifecycle bookkeeping as a nondeterministic state machine over abstract tasks "
    "(pending/done/cancelled) and sources (notStarted/running/closed n): from every state reachable while every "
    "created task is registered in a collection the stop procedure walks, and for every stop, every schedule of "
    "enabled actions is bounded by the number of pending tasks + 1, and every quiescent state it can end in has "
    "(L1) no pending task, (L2) every started source closed exactly once and no unstarted source closed, (L3) the "
    "hook fired exactly once and only when no registered task was pending, (L4) the caller released; an unregistered "
    "task refutes L1 (counter-example in the file). This covers the bookkeeping logic only. The implementation is "
    "explored from the outside: generated incremental/subscription/plain requests x completion orders x every stop "
    "point x stop kind x early execution, each under a watchdog, with the property's end state as oracle."
)
LEVEL_NOTE = (
    "PARTIAL: the theorem is about the bookkeeping (which tasks are registered, requested to cancel, awaited before "
    "the hook). That asyncio delivers a cancellation, that a closed or cancelled async generator runs its finally "
    "clause, that a parked Queue.put wakes up are runtime behaviour the model cannot exhibit; they are covered only by "
    "the exploration. The hypothesis 'every created task is registered' is exactly what the known findings of this "
    "property violate in the code (see known_findings.json); the exploration reports them with specific fingerprints. "
    "After triggering the abort signal the harness consumer still pulls once / closes the stream it holds: nothing in "
    "the implementation listens to the signal between pulls, an abandoned stream is outside the oracle."
)
TECHNIQUE = "Lean 4 invariant + well-founded measure on an abstract lifecycle machine; outside-only exploration of the implementation with a watchdog"
TRUSTED = [
    "hand-written Lean model Gql/Async/Lifecycle.lean (bookkeeping abstraction; tied to the code only through the "
    "end-state correspondence of the exploration: per scenario the observed end state vs the model's quiescent state)",
    "asyncio stepping harness tools/c06_loop.py (instrumented resolvers/sources, hook snapshots, all_tasks after drain)",
]
ASSUMPTIONS = [
    "asyncio delivers requested cancellations and finalises closed async generators (runtime, not modelled)",
    "the consumer never abandons a stream without closing it; after an abort it pulls once more or closes",
    "a resolver that hangs forever does so only where a stop is going to cancel it (no hanging work is put in the background by the request itself)",
]
EXPLANATION = (
    "Theorems: stop_quiescent_good, stop_runs_bounded, hook_only_when_settled, unregistered_task_leaks (counter-example). "
    "Exploration: every stop point x kind x early on generated requests; oracle = L1-L4 on the implementation."
)

CONSUMER_STOPS = ("aclose", "cancel_pull", "abort")


def dcls(d):
    return str(d) if d < 2 else "2+"


def context(sc, obs):
    st = sc["stop"]
    kind = st["kind"]
    ev = obs.get("events", [])
    if kind == "none":
        point = "-"
    elif kind == "abort_initial":
        init = next((e for e in ev if e.startswith("initial:") or e.startswith("call-raised")), None)
        point = "initial-delivered" if init in (None, "initial:ok") else "initial-aborted"
    elif obs.get("delivered_before_stop", 0) > 0:
        point = "after-payloads"
    else:
        point = "before-first" if obs.get("stream_started", True) else "before-first-unstarted"
    return sc["family"], kind, point, int(bool(sc["early"]))


def expected_hooks(sc, obs):
    if sc["family"] != "subscription":
        return (1, 1)
    subs = [s for s in obs["sources"] if s["role"] == "subscription"]
    y = subs[0]["yielded"] if subs else 0
    # every delivered response comes from an execution that must have fired its hook; an event the source
    # handed out may have been discarded by the stop before it was executed
    return (min(obs.get("payloads", 0), y), y)


def anomalies(sc, obs):
    """Deviations of the observed end state from the property's (L1-L4), as small classes."""
    out = []
    if obs.get("hang") or not obs.get("released", True):
        out.append("not-released")
        if obs.get("tasks_left") is None:
            return out
    if obs.get("tasks_left"):
        ds = obs.get("running_left_depths") or []
        an = [s["depth"] for s in obs["sources"] if s["in_anext"] > 0 or (s["kind"] == "agen" and s["started"] and s["closed"] == 0)]
        out.append("tasks-left:" + ("resolver-depth-" + dcls(min(ds)) if ds else ("source-pending-depth-" + dcls(min(an)) if an else "library-only")))
    left_open = set()
    for i, s in enumerate(obs["sources"]):
        if s["kind"] != "cls_noaclose" and s["started"] and s["closed"] == 0:
            left_open.add(i)
            out.append(f"source-left-open:{s['role']}-source:{'streamed' if s['streamed'] else 'plain'}:in-{s['encl']}:depth-{dcls(s['depth'])}")
        if s.get("cleanup_interrupted") and sc["stop"]["kind"] != "cancel_pull":
            own = ":after-own-failure" if s.get("raised") else ""
            out.append(f"source-cleanup-interrupted:{s['role']}-source:{'streamed' if s['streamed'] else 'plain'}:in-{s['encl']}:depth-{dcls(s['depth'])}{own}")
        if s["acloses"] > 1:
            out.append(f"source-closed-twice:{s['role']}-source:{'streamed' if s['streamed'] else 'plain'}")
    lo, hi = expected_hooks(sc, obs)
    n = len(obs["hook"])
    if n < lo:
        out.append("hook-never" if n == 0 else "hook-too-few")
    elif n > hi:
        out.append("hook-more-than-once")
    for h in obs["hook"]:
        if h["tracked_pending"] or h["background_futures"]:
            out.append("hook-early:tracked-background-work-pending")
        elif h["incremental_pending"]:
            out.append("hook-early:incremental-futures-pending")
        else:
            later_closed = [o for o in h["open_sources"] if o[0] not in left_open]
            if later_closed:
                _, d, st, encl = later_closed[0]
                out.append(f"hook-early:source-still-closing:{'streamed' if st else 'plain'}:depth-{dcls(d)}")
            elif h["running"]:
                out.append("hook-early:resolver-running:depth-" + dcls(min(h["running_depths"])))
    ok = {"ok", "reason", "aborted(reason)", "StopAsyncIteration", "CancelledError", "SourceError"}
    for e in obs.get("events", []):
        if ":" in e:
            what, val = e.split(":", 1)
            if what in ("initial", "pull", "aclose", "call-raised") and val not in ok:
                out.append(f"unexpected-outcome:{what}:{val}")
    return sorted(set(out))


def classify(ctx, anomaly, sc, obs):
    """Root cause label of an anomaly when (context, anomaly) is one a documented root cause explains;
    otherwise None (then the fingerprint is the raw signature, which no known finding lists)."""
    family, kind, point, early = ctx
    a = anomaly
    # 13. a second cancellation reaches a source that is already releasing its resource after the first one
    #     (C03: an outer gather_with_cancel cancels the task that waits for the inner one's cancelled children)
    # 13. a list field is closing its source for a reason of its own (the source itself raised, or its pending
    #     __anext__ was rejected with the abort reason) when a failing sibling field has it cancelled: the
    #     cancellation lands inside the close that is already running.  (A close that was started by a cancellation
    #     and is cut short by a second one - gather_with_cancel before 1574f97 - is a VIOLATION again.)
    if a.startswith("source-cleanup-interrupted:list-source:plain:") and (
        a.endswith(":after-own-failure") or kind in ("abort", "abort_initial")
    ):
        return "sibling-cancellation:interrupts-source-close-in-progress"
    # 14. StreamItemQueue cancels a pending item future in abort() and again in _settle_pending(): the second
    #     cancellation interrupts the close of a plain list source nested in that item
    if kind == "aclose" and family == "incremental" and (
        a.startswith("source-cleanup-interrupted:list-source:plain:in-stream:") or a == "source-cleanup-interrupted:list-source:plain:in-defer:depth-2+"
    ):
        return "stream-abort:item-cancelled-twice-interrupts-nested-source-close"
    if a.startswith("source-cleanup-interrupted:list-source:streamed") and family == "incremental":
        # StreamItemQueue.abort cancels the producer and _cleanup cancels it again while it is closing the source
        return "stream-abort:producer-cancelled-twice-interrupts-source-cleanup"
    if family != "incremental":
        return None
    # 2. abort while the initial result is pending: the aborted result's subsequent_results is never driven
    if kind == "abort_initial" and point == "initial-aborted":
        if a == "hook-never":
            return "abort-during-initial-phase:subsequent-results-never-driven:hook-never-fires"
        if a.startswith("source-left-open:list-source:streamed:"):
            return "abort-during-initial-phase:subsequent-results-never-driven:stream-source-left-open"
        if a.startswith("tasks-left:") and early:
            return "abort-during-initial-phase:subsequent-results-never-driven:early-task-left"
    # 3. stream closed before its first __anext__: the never-started generator skips its finally
    if kind in ("aclose", "cancel_pull") and point == "before-first-unstarted":
        if a == "hook-never":
            return "close-before-first-anext:early-work-leaks-hook-never-fires:hook-never-fires"
        if a.startswith("source-left-open:list-source:"):
            return "close-before-first-anext:early-work-leaks-hook-never-fires:source-left-open"
        if a.startswith("tasks-left:") and early:
            return "close-before-first-anext:early-work-leaks-hook-never-fires:early-task-left"
    # 12. the consumer cancels its pending pull while the stream is already finishing by itself: the
    #     CancelledError lands inside the generator's finally and interrupts cancel_incremental_work, the hook is skipped
    if kind == "cancel_pull" and a == "hook-never" and point in ("after-payloads", "before-first"):
        return "cancelled-pull:finally-cleanup-interrupted:hook-never-fires"
    stopped = kind in CONSUMER_STOPS or (kind == "abort_initial" and point == "initial-delivered")
    # 4b. get_incremental_work aborts computations at nulled positions without awaiting them (any run)
    if a == "hook-early:incremental-futures-pending" and early and (obs.get("errors_seen") or kind != "none"):
        return "nulled-position-abort:hook-before-cancelled-computation-settled"
    # 8. StreamItemQueue.abort after a producer failure returns before the producer's cleanup finished
    if a.startswith("hook-early:source-still-closing:streamed:") and kind in ("abort", "abort_initial"):
        return "stream-abort-after-producer-failure:returns-before-producer-cleanup"
    # 4 again, reached without a consumer stop: when every delivery group has failed the payload stream ends regularly and
    #    the generator's `finally` runs the same WorkQueue.cancel / cancel_incremental_work, which request the
    #    cancellation of the sibling computations that are still running and do not await them
    if kind == "none" and obs.get("errors_seen") and a.startswith("hook-early:resolver-running:depth-") and not a.endswith("depth-0"):
        return "workqueue-cancel:hook-before-resolvers-unwound"
    if stopped:
        # 4. WorkQueue.cancel requests the cancellation of computations / items but does not await them
        if a.startswith("hook-early:resolver-running:depth-") and not a.endswith("depth-0"):
            return "workqueue-cancel:hook-before-resolvers-unwound"
        if a.startswith("hook-early:source-still-closing:plain:") and not a.endswith("depth-0"):
            return "workqueue-cancel:hook-before-resolvers-unwound"
        # 7. work nested in results that are never delivered is never aborted
        if a.startswith("source-left-open:list-source:") and not a.endswith("depth-0"):
            return "undelivered-nested-work:source-left-open"
        if a.startswith("hook-early:source-still-closing:streamed:") and not a.endswith("depth-0"):
            return "undelivered-nested-work:source-left-open"
        if early and a in ("tasks-left:resolver-depth-2+", "tasks-left:source-pending-depth-1", "tasks-left:source-pending-depth-2+", "tasks-left:library-only"):
            return "undelivered-nested-work:early-task-left"
    # 7'. the same when a failing resolver (not the consumer) makes the executor abort an early executed stream:
    #     the cancelled item futures cannot abort the nested work they had already produced
    if kind == "none" and early and (
        a.startswith("source-left-open:list-source:streamed:in-stream:") or a in ("tasks-left:source-pending-depth-1", "tasks-left:source-pending-depth-2+")
    ):
        return "undelivered-nested-work:source-left-open" if a.startswith("source") else "undelivered-nested-work:early-task-left"
    # 10. a failing plain list settles the item completions it collected in the background; a stream such an
    #     item creates after the response was built is neither delivered nor aborted
    if any(s["raised"] and not s["streamed"] and s["role"] == "list" for s in obs.get("sources", [])):
        if a.startswith("source-left-open:list-source:streamed:in-none:") or a.startswith("hook-early:source-still-closing:streamed:"):
            return "late-incremental-work:stream-created-after-response-built:source-left-open"
    # 9. a failed delivery group is removed from the graph without aborting the streams of its tasks
    #    (the same after a consumer stop that comes once the group has failed: the stop cannot reach a stream the
    #    graph no longer knows)
    if (kind == "none" or (stopped and obs.get("errors_seen"))) and (
        a.startswith("source-left-open:list-source:streamed:in-defer:") or a.startswith("hook-early:source-still-closing:streamed:")
    ):
        if "@defer" in sc["doc"]:
            return "group-failure:removed-subtree-not-aborted:stream-source-left-open"
    return None


def _brief(sc):
    return {k: sc[k] for k in ("family", "early", "doc", "data", "sub", "stop") if k in sc}


def _evaluate(sc, obs, rep):
    ctx = context(sc, obs)
    ans = anomalies(sc, obs)
    for a in ans:
        label = classify(ctx, a, sc, obs)
        fp = label or "unclassified:%s/%s/%s/early=%d:%s" % (*ctx, a)
        rep.failures.append(
            Failure(
                fp,
                f"after stop {sc['stop']} (early={sc['early']}) the end state violates the property: {a}",
                _brief(sc),
                {"anomaly": a, "context": "%s/%s/%s/early=%d" % ctx, "events": obs.get("events"), "tasks_left": obs.get("tasks_left"),
                 "hook": obs.get("hook"), "sources": obs.get("sources")},
                "caller released; no task pending; every started source closed exactly once; hook fired exactly once after all tracked work settled",
                "C06 property text (L1-L4), evaluated on the implementation's observed end state",
            )
        )
    return ctx, ans


def _model_line(sc, obs):
    """Abstract scenario for the model: per source whether it was started, number of harness tasks, stop kind."""
    srcs = [s for s in obs.get("sources", []) if s["kind"] != "cls_noaclose"]
    bits = "".join("1" if s["started"] else "0" for s in srcs) or "-"
    lo, hi = expected_hooks(sc, obs) if obs.get("sources") is not None else (1, 1)
    kind = {"none": "exhausted", "aclose": "aclose", "cancel_pull": "aclose", "abort": "abort", "abort_initial": "abort"}[sc["stop"]["kind"]]
    return f"end {kind} {bits} {min(obs.get('payloads', 0) + len(srcs), 50)}"


def _impl_line(sc, obs):
    if obs.get("tasks_left") is None:
        return "hang"
    srcs = [s for s in obs.get("sources", []) if s["kind"] != "cls_noaclose"]
    # the property speaks about *started* sources; closing a never-started iterator once (aclose() on a
    # fresh generator is a no-op) is neither required nor forbidden, so it is canonicalised to "0"
    closed = "".join(str(min(s["closed"], 9)) if (s["started"] or s["closed"] > 1) else "0" for s in srcs) or "-"
    lo, hi = expected_hooks(sc, obs)
    n = len(obs["hook"])
    hooks = "ok" if lo <= n <= hi else str(n)
    early = any(h["tracked_pending"] or h["background_futures"] or h["incremental_pending"] or h["running"] or h["open_sources"] for h in obs["hook"])
    return f"pending={obs['tasks_left']} closed={closed} hook={hooks}{'-early' if early else ''} released={1 if obs.get('released') and not obs.get('hang') else 0}"


_KNOWN = {k["fingerprint"] for k in fw.load_known() if k.get("property") == "C06" and k.get("status") == "known"}


def _work(args):
    reqs, per_request, seed, drv = args
    fw.use_repo()
    import random

    from tools import c06_loop as L

    rep = Report()
    st = rep.stats
    lines, metas = [], []
    seen = set()

    def one(sc):
        obs = L.run_scenario(sc)
        rep.evaluations += 1
        ctx, ans = _evaluate(sc, obs, rep)
        key = "%s/%s/%s" % ctx[:3]
        st[f"ctx_{key}"] = st.get(f"ctx_{key}", 0) + 1
        st[f"early_{ctx[3]}"] = st.get(f"early_{ctx[3]}", 0) + 1
        n_src = sum(1 for s in obs.get("sources", []) if s["started"])
        st["sources_started"] = st.get("sources_started", 0) + n_src
        st["scenarios_with_hanging_work"] = st.get("scenarios_with_hanging_work", 0) + (1 if '"hang": true' in json.dumps(_brief(sc)) or '"hang_at"' in json.dumps(_brief(sc)) else 0)
        # The model predicts the *good* end state.  Where the implementation deviates from it by an
        # anomaly that is a listed known finding, the deviation is that finding (reported as such), not a
        # stale model: only scenarios without anomalies, or with an unlisted one, enter the correspondence.
        labels = [classify(ctx, a, sc, obs) for a in ans]
        explained = bool(ans) and all(l is not None and l in _KNOWN for l in labels)
        if obs.get("tasks_left") is not None and not explained:
            lines.append(_model_line(sc, obs))
            metas.append((sc, obs))
        h = hashlib.sha1(json.dumps(_brief(sc), sort_keys=True).encode()).hexdigest()
        if sc["stop"]["kind"] != "none" and (n_src or "@" in sc["doc"]) and h not in seen:
            seen.add(h)
            rep.nontrivial += 1
        return obs

    for i, req in enumerate(reqs):
        rng = random.Random(f"c06:{seed}:{i}:{req['doc'][:40]}")
        obs = one(dict(req, stop={"kind": "none"}))
        for stop in L.expand_stops(rng, req, obs.get("payloads", 0), per_request):
            one(dict(req, stop=stop))
    if drv and lines:
        outs = fw.Driver(drv).run(lines)
        for (sc, obs), line, out in zip(metas, lines, outs):
            impl = _impl_line(sc, obs)
            if impl != out:
                rep.disagreements.append(Disagreement("lifecycle-end-state", {"scenario": _brief(sc), "line": line}, impl, out))
    if metas:
        sc, obs = metas[len(metas) // 2]
        rep.samples.append({"doc": sc["doc"][:200], "family": sc["family"], "early": sc["early"], "stop": sc["stop"], "events": obs.get("events"), "end": _impl_line(sc, obs)})
    return rep


def _corpus():
    d = fw.VERIF / "corpus" / "C06"
    out = []
    if d.is_dir():
        for f in sorted(d.glob("*.json")):
            try:
                sc = json.loads(f.read_text())
                out.append(sc.get("input", sc))
            except Exception:  # noqa: BLE001
                continue
    return out


def _requests(ctx, tag, n):
    from tools import c06_loop as L

    rng = ctx.sub_rng(tag)
    fams = ["incremental", "incremental", "incremental", "subscription", "query"]
    reqs = [L.gen_request(rng, rng.choice(fams)) for _ in range(n)]
    # cooperating-parts shapes (a separate random stream: the cases above stay what they were)
    rng2 = ctx.sub_rng(tag + ":special")
    for _ in range(max(4, n // 12)):
        reqs.append(L.gen_special(rng2, "nested-background", rng2.choice(["query", "query", "incremental", "subscription"])))
        reqs.append(L.gen_special(rng2, "shared-failure", "incremental"))
    return reqs


def _run_all(ctx, tag, n_req, per_request, with_model=True):
    reqs = _requests(ctx, tag, n_req)
    drv = DRIVER if (ctx.driver and with_model) else None
    chunks = fw.chunked(reqs, fw.WORKERS * 3)
    reps = fw.pmap(_work, [(c, per_request, ctx.seed, drv) for c in chunks])
    rep = Report()
    for r in reps:
        rep.merge(r)
    return rep, len(reqs)


def explore(ctx) -> Report:
    fw.use_repo()
    quick = ctx.tier == "quick"
    n_req, per = (600, 12) if quick else (5000, 30)
    if ctx.escalate and quick:
        n_req *= 2
    rep, n = _run_all(ctx, "c06", n_req, per)
    # corpus scenarios (minimised witnesses) first in the report
    crep = _work(([], 0, ctx.seed, None))
    for sc in _corpus():
        from tools import c06_loop as L

        obs = L.run_scenario(sc)
        crep.evaluations += 1
        _evaluate(sc, obs, crep)
    rep.merge(crep)
    rep.rule = (
        f"{n} generated requests (incremental with @defer/@stream over async generators, class iterators and awaitable "
        f"resolvers; subscriptions; plain async queries), each run unstopped and at up to {per} stop points sampled from: "
        "before the first payload / after each delivered payload / with a pull pending x {aclose, cancel the pending pull "
        "then aclose, abort with exception / default / non-exception reason, abort while the initial result is pending} "
        "x early execution F/T; non-trivial = stopped scenarios of requests with incremental directives or started sources; "
        "distinct by hash of the scenario"
    )
    rep.stats["requests"] = n
    return rep


def search(ctx, rep) -> Report:
    fw.use_repo()
    out, _ = _run_all(ctx, "c06-search", 400 if ctx.tier == "quick" else 2000, 20, with_model=False)
    res = Report(evaluations=out.evaluations, failures=out.failures)
    res.notes.append(f"failing-input search: {out.evaluations} further scenarios, {len(out.failures)} property failures")
    return res


def replay(ctx, payload) -> Report:
    fw.use_repo()
    from tools import c06_loop as L

    sc = payload.get("input", payload)
    if "scenario" in sc:
        sc = sc["scenario"]
    rep = Report()
    obs = L.run_scenario(sc)
    rep.evaluations = 1
    _evaluate(sc, obs, rep)
    rep.samples.append({"events": obs.get("events"), "end": _impl_line(sc, obs)})
    return rep
