"""C09 — ignored tokens are ignored: layout changes never change the token stream or AST."""
from __future__ import annotations

import itertools

from tools import fw
from tools.fw import Disagreement, Failure, Report

ID = "C09"
PROPS = "Gql.Props.C09"
DRIVER = "drv_c09"
LEVEL = "proof"
LEVEL_TEXT = (
    "Lean theorems about the crash-faithful index-based model of lexer.py (no bound on the text): the lexer never "
    "crashes and always makes progress (fuel never exhausted); token spans are non-empty, ordered, disjoint and in "
    "bounds, ending with EOF at (len, len); for every text the lexer returns exactly the token sequence of the "
    "specification's lexical grammar (kinds, spans, values; accept/reject) -- all classes: Ignored (white space, line "
    "terminators, comma, BOM, comments), Punctuator, Name, IntValue / FloatValue with all lookahead restrictions, "
    "StringValue with the three escape forms and the surrogate-pair rule, BlockString with BlockStringValue() "
    "(dedent_block_string_lines = the specification's algorithm; the maxsize-vs-null commonIndent difference is "
    "unobservable); every gap consists of Ignored items only (the returned tokens form a derivation of the grammar's "
    "token-sequence relation, which the executable spec tokenizer decides in both directions); gap replacement with "
    "prefix stability: the run of Ignored items after any token (or in front of the text) may be replaced by any other "
    "run of Ignored items -- inserted, removed where the next code point cannot extend the token, or rewritten -- and "
    "the kinds and values of all tokens before and after it are unchanged (ignored_invariance, ignored_insertion, "
    "ignored_removal; per-class locality of the grammar's recognisers); strip_ignored_characters rejects exactly what "
    "the lexer rejects and never crashes, and for every source text that lexes -- Unicode scalar values and verbatim "
    "surrogate pairs (a lead surrogate immediately followed by a trail surrogate inside strings, block strings and "
    "comments) alike -- the stripped text lexes to the same kinds and values (block strings re-printed minimised, "
    "compared by value) and stripping it again returns it unchanged (strip_tokens : strip_tokens_full, strip_idem : "
    "strip_idem_full, no hypothesis on the text; they rest on the block-string print/lex round trip extended to values "
    "with surrogate pairs, printBlockStringW_roundtrip_paired, and on blockString?_value_paired: neither the line split "
    "nor the removal of the common indentation separates a pair); the advance_lexer counter accepts exactly the "
    "streams with at most n tokens and ends at the number of significant tokens. "
    "The models are tied to the code by an exhaustive three-way comparison implementation / model / specification "
    "tokenizer on all strings of length <= 4 (quick) / <= 5 (thorough) over the 16-symbol alphabet, a second "
    "exhaustive pass over a 32-symbol alphabet (<= 3 / <= 4), generated and mutated documents x Ignored classes x "
    "token boundaries (AST and token signature unchanged), strip text equality model vs code with "
    "idempotence / same-AST / same-rejection oracles (a quarter of the generated strip texts and an exhaustive family "
    "of short block strings contain verbatim surrogate pairs in strings, block strings and comments, or broken pairs), "
    "and max_tokens / token_count against the specification's count."
)
LEVEL_NOTE = (
    "Trusted: Lean kernel; hand-written models Gql/Text/Lexer.lean, Strip.lean, BlockString.lean (tied by "
    "correspondence, not by translation); the specification transcription Gql/Spec/Lex.lean; the harness. "
    "The parser is not modelled here: 'same AST' is checked on the implementation (metamorphic oracle); the "
    "token-limit theorem is about the counter of advance_lexer over the token stream."
)
TECHNIQUE = "Lean 4 proof about executable models + exhaustive/generated correspondence + spec/metamorphic oracles"
TRUSTED = [
    "hand-written Lean models Gql/Text/Lexer.lean (lexer.py), Gql/Text/Strip.lean (strip_ignored_characters, "
    "advance_lexer counter), Gql/Text/BlockString.lean (print_block_string, shared with C08); tied to the code by the runs below",
    "Gql/Spec/Lex.lean: transcription of the specification's lexical grammar (§2.1) as suffix recognisers",
    "the parser itself is exercised on the implementation only (AST equality before/after a layout change)",
]
ASSUMPTIONS = [
    "SourceCharacter = Unicode scalar value, or a lead surrogate immediately followed by a trail surrogate "
    "(Python str can hold surrogates); a lone surrogate is not source text",
    r"\u{...} escapes carry the reference implementation's bound of 8 hex digits (the specification has no bound)",
    "a successful parse advances over every significant token exactly once (advance_lexer is the only caller of "
    "Lexer.advance); the counter model abstracts the parser to that token stream",
]
EXPLANATION = (
    "Theorems: see lean/Gql/Props/C09.lean. Correspondence: implementation lexer vs model lexer vs specification "
    "tokenizer (exhaustive small strings + generated), strip_ignored_characters / print_block_string / max_tokens "
    "model vs code. Oracles on the implementation: spec tokenizer (kinds, spans, values, accept/reject), "
    "AST and token signature invariant under insertion of every Ignored class at every token boundary, "
    "strip idempotent / same AST / same rejection, token_count = spec count, max_tokens=n accepts iff count <= n."
)

# the property's 16-symbol lexical alphabet: every lexer dispatch branch has a representative
# (quote, backslash, the escape letters u { }, digits 0 / non-zero, exponent letter (also a hex digit and a
# NameStart), dot, minus, a name letter (also a hex digit), comment, comma, LF, CR, and the BOM as the
# sixteenth symbol (the one Ignored code point outside ASCII)).
ALPHABET = ['"', "\\", "u", "{", "}", "0", "1", "e", ".", "-", "a", "#", ",", "\n", "\r", "\ufeff"]
# second pass: + space, tab, VT, FF, NBSP, lone lead / trail surrogate, a supplementary code point,
# single quote, E, +, _, 9, !, :, U+2028
ALPHABET_EXT = ALPHABET + [" ", "\t", "\x0b", "\x0c", "\xa0", "\ud83d", "\ude00", "\U0001f600", "'", "E", "+", "_", "9", "!", ":", "\u2028"]

INSERTIONS = [
    ("space", " "), ("tab", "\t"), ("comma", ","), ("lf", "\n"), ("cr", "\r"), ("crlf", "\r\n"),
    ("bom", "\ufeff"), ("comment", "#comment\n"), ("comment-unicode", "#é \U0001f600\r"),
    # sequences of several ignored tokens (the lexer links consecutive comments into the token list, and the
    # parser looks ahead across them after a description and after `extend`)
    ("two-comments", "\n# one\n# two\n"), ("comments-mixed", "#a\r,#b\r\n\ufeff\t#\n#c\n"),
]


def strings_upto(alphabet, n):
    for ln in range(n + 1):
        for t in itertools.product(alphabet, repeat=ln):
            yield "".join(t)


# ----------------------------------------------------------------------------- canonical forms


def _parse_out(out, linecol):
    """'ok KIND s e [l c] v ..| ..' -> list of (kind, start, end, value-tuple|None); None if not ok."""
    if not out.startswith("ok"):
        return None
    toks = []
    for part in out[3:].split(" | "):
        w = part.split()
        rest = w[5:] if linecol else w[3:]
        val = None if rest == ["-"] else tuple(int(x) for x in rest[1:])
        toks.append((w[0], int(w[1]), int(w[2]), val))
    return toks


def _norm(o):
    """Canonical lexer outcome; a syntax error is reduced to its position (wording / error class of the
    message are not observables of this property)."""
    if o.startswith("ok"):
        return " | ".join(p.rstrip() for p in o.split(" | "))
    if o.startswith("err"):
        return "err " + o.split()[-1]
    return o


def _sig(body):
    """Token signature on the implementation: [(kind, value)] of the non-comment tokens, 'ERR' appended if
    lexing stops with a syntax error, ('CRASH', cls) on anything else."""
    from graphql.error import GraphQLSyntaxError
    from graphql.language import Lexer, Source, TokenKind

    sig = []
    try:
        lexer = Lexer(Source(body))
        while True:
            tok = lexer.advance()
            if tok.kind == TokenKind.EOF:
                break
            sig.append((tok.kind.name, tok.value))
            if len(sig) > len(body) + 5:
                sig.append(("CRASH", "NoProgress"))
                break
    except GraphQLSyntaxError:
        sig.append("ERR")
    except Exception as e:  # noqa: BLE001
        sig.append(("CRASH", type(e).__name__))
    return sig


def _tokens(body):
    """(start, end) of every non-comment token lexed before EOF / the first error, on the implementation."""
    from graphql.error import GraphQLSyntaxError
    from graphql.language import Lexer, Source, TokenKind

    spans = []
    try:
        lexer = Lexer(Source(body))
        while True:
            tok = lexer.advance()
            spans.append((tok.start, tok.end))
            if tok.kind == TokenKind.EOF or len(spans) > len(body) + 5:
                break
    except GraphQLSyntaxError:
        pass
    except Exception:  # noqa: BLE001
        pass
    return spans


def _parse(body, **kw):
    """('ok', document) | ('syntax', message) | ('crash', cls)"""
    from graphql.error import GraphQLSyntaxError
    from graphql.language import parse

    try:
        return ("ok", parse(body, no_location=True, **kw))
    except GraphQLSyntaxError as e:
        return ("syntax", e.message, e.positions[0] if e.positions else -1)
    except RecursionError:
        return ("crash", "RecursionError")
    except Exception as e:  # noqa: BLE001
        return ("crash", type(e).__name__)


# ----------------------------------------------------------------------------- (1) lexer / model / spec


def _lex_work(args):
    bodies, drv = args
    from tools.lexcorr import impl_lex

    rep = Report()
    driver = fw.Driver(drv) if drv else None
    impl = [_norm(impl_lex(b, with_kind=False)) for b in bodies]
    if driver:
        outs = driver.run([op + fw.cps(b) for b in bodies for op in ("lex ", "spec ")])
        model = [_norm(o) for o in outs[0::2]]
        spec = outs[1::2]
    else:
        model = spec = [None] * len(bodies)
    st = rep.stats
    for b, i, m, s in zip(bodies, impl, model, spec):
        rep.evaluations += 1
        head = i.split(" ", 2)
        if head[0] == "ok":
            ntok = i.count(" | ")
            st["accepted"] = st.get("accepted", 0) + 1
            for part in i[3:].split(" | "):
                k = "tok_" + part.split(" ", 1)[0]
                st[k] = st.get(k, 0) + 1
            if ntok >= 1:
                rep.nontrivial += 1
            else:
                st["trivial_only_ignored"] = st.get("trivial_only_ignored", 0) + 1
        else:
            rep.nontrivial += 1
            st["rejected"] = st.get("rejected", 0) + 1
        if m is not None and i != m:
            rep.disagreements.append(Disagreement("lexer", _inp("lex", "body", b), i, m))
        if i.startswith("crash"):
            rep.failures.append(Failure("lexer-raises-non-syntax-error", "the lexer raises something other than GraphQLSyntaxError", _inp("lex", "body", b), i, "tokens or a syntax error", "C09-1 lex_no_crash"))
            continue
        if s is None:
            continue
        it = _parse_out(i, True)
        stoks = _parse_out(s, False)
        if it is None and stoks is not None:
            rep.failures.append(Failure("lexer-rejects-grammar-text", "the lexer rejects a text that is in the lexical grammar", _inp("lex", "body", b), i, s, "C09-1 lexer_eq_grammar (spec tokenizer)"))
        elif it is not None and stoks is None:
            rep.failures.append(Failure("lexer-accepts-outside-grammar", "the lexer accepts a text that is not in the lexical grammar", _inp("lex", "body", b), i, "rejected (no token sequence)", "C09-1 lexer_eq_grammar (spec tokenizer)"))
        elif it is not None and it != stoks:
            kind = next((x[0] for x, y in itertools.zip_longest(it, stoks, fillvalue=("EOF",)) if x != y), "?")
            rep.failures.append(Failure(f"lexer-token-differs-{kind}", "token kinds/spans/values differ from the lexical grammar", _inp("lex", "body", b), i, s, "C09-1 lexer_eq_grammar (spec tokenizer)"))
    if bodies:
        b = bodies[len(bodies) // 2]
        k = len(bodies) // 2
        rep.samples.append({"body": b, "impl": impl[k], "spec": spec[k]})
    return rep


# ----------------------------------------------------------------------------- generators

POOL_NAMES = ["a", "e", "on", "query", "true", "null", "_x9", "E1", "fragment", "type", "u0"]
POOL_NUMS = ["0", "-0", "1", "-12", "0.5", "1e3", "-1.5E-3", "0e0", "10", "9.0e+2"]
POOL_BAD = ["01", "1.", "1e", "1a", "0x", ".5", "..", "1.e3", "-", "-a", "1_", "0.1.2", "1..2", "'", "?", "\x0b", "\ud83d", "\u2028"]
POOL_STRINGS = ['""', '"a"', '" "', '"\\n\\""', '"\\u0041"', '"\\u{1F600}"', '"\\uD83D\\uDE00"', '"#,"', '"\U0001f600"', '"\\\\"']
POOL_BAD_STRINGS = ['"', '"a', '"\\x"', '"\\u12"', '"\\u{}"', '"\\u{110000}"', '"\\uD83D"', '"\\uDE00"', '"a\nb"', '"\ud83d"', '"\\u{000000041}"']
POOL_BLOCKS = ['""""""', '"""a"""', '""" a\n  b\n c """', '"""\n\n  x\n\n"""', '"""\\""""""', '"""a\\"""', '"""a"\n"""', '"""\r\n\ta\r\tb"""', '""" """', '"""\n"""', '"""a\\\n"""', '"""x\n    y\n   z"""', '"""é\U0001f600"""']
POOL_BAD_BLOCKS = ['"""', '"""a""', '"""\ud83d"""']
POOL_PUNCT = ["!", "$", "&", "(", ")", "...", ":", "=", "@", "[", "]", "{", "|", "}"]
# verbatim surrogate pairs (two code points of a Python str: lead immediately followed by trail), which the lexer
# accepts inside strings, block strings and comments; PAIR_LO / PAIR_HI are the extreme pairs
PAIR = "\ud83d\ude00"
PAIR_LO = "\ud800\udc00"
PAIR_HI = "\udbff\udfff"
POOL_PAIR_STRINGS = ['"' + PAIR + '"', '"a' + PAIR + 'b"', '"' + PAIR + '\\n"', '"' + PAIR_LO + PAIR_HI + '"', '" ' + PAIR + ' "', '"\\u0041' + PAIR + '"']
POOL_PAIR_BLOCKS = [
    '"""' + PAIR + '"""', '"""\n  ' + PAIR + 'a\n   ' + PAIR + '\n"""', '""" ' + PAIR + '\\""""""', '"""' + PAIR + '\n ' + PAIR + '"""',
    '"""a\n\t' + PAIR + '\n\t ' + PAIR + PAIR + '\n"""', '"""' + PAIR + '"\n"""', '"""\r\n  ' + PAIR + '\r   x' + PAIR_HI + '"""',
    '"""' + PAIR + '\\"""', '"""\n' + PAIR_LO + '\n"""', '"""  ' + PAIR + '\n\n    ' + PAIR + ' \n  """', '"""' + PAIR + '\\\n"""', '"""' + PAIR + ' """',
]
POOL_PAIR_IGNORED = ["#" + PAIR + "\n", "# " + PAIR + " x\r\n", "#" + PAIR, "#" + PAIR_LO + PAIR_HI + "\r", " #" + PAIR + "\n "]
# broken pairs: reversed, separated by a blank / a line terminator / an escaped triple quote, lone halves
POOL_BAD_PAIRS = [
    '"\ude00\ud83d"', '"""\ud83d\n\ude00"""', '"""\ud83d \ude00"""', '"""\ud83d\\"""\ude00"""', '"""' + PAIR + '\ud83d"""', '"' + PAIR + '\ude00"',
    "#\ud83d\n", "#" + PAIR + "\ude00\n", '"""\ude00"""', PAIR,
]
POOL_IGNORED = [" ", "\t", ",", "\n", "\r", "\r\n", "\ufeff", "#c\n", "# \U0001f600\r", "#", "  ", "\n\n", ""]


def gen_lexeme_strings(rng, n, bad_rate=0.15, pair_rate=0.0):
    """Random sequences of lexemes separated by random (possibly empty) ignored material.  With probability
    `pair_rate` a text is a surrogate-pair text: its strings, block strings and comments are drawn (half of the
    time each) from the pools with verbatim surrogate pairs, its bad lexemes from the broken pairs."""
    out = []
    good = [POOL_NAMES, POOL_NUMS, POOL_STRINGS, POOL_BLOCKS, POOL_PUNCT]
    bad = [POOL_BAD, POOL_BAD_STRINGS, POOL_BAD_BLOCKS]
    good_p = [POOL_NAMES, POOL_NUMS, POOL_PAIR_STRINGS, POOL_PAIR_BLOCKS, POOL_PAIR_BLOCKS, POOL_PUNCT]
    for _ in range(n):
        k = rng.randint(1, 9)
        paired = pair_rate > 0 and rng.random() < pair_rate

        def ign():
            if paired and rng.random() < 0.3:
                return rng.choice(POOL_PAIR_IGNORED)
            return rng.choice(POOL_IGNORED)

        parts = [ign()]
        for _ in range(k):
            if rng.random() < bad_rate / k * 3:
                pool = POOL_BAD_PAIRS if paired else rng.choice(bad)
            elif paired and rng.random() < 0.6:
                pool = rng.choice(good_p)
            else:
                pool = rng.choice(good)
            parts.append(rng.choice(pool))
            parts.append(ign())
        out.append("".join(parts))
    return out


def _inp(kind, key, text, **extra):
    """Replay input.  JSON cannot carry a verbatim surrogate pair (json.loads joins `\\ud83d\\ude00` into the one
    code point U+1F600), so a text with surrogate code points is stored as its list of code points as well and
    `_text_of` reads that back."""
    d = {"kind": kind, key: text}
    d.update(extra)
    if any(0xD800 <= ord(c) <= 0xDFFF for c in text):
        d["cps"] = [ord(c) for c in text]
    return d


def _text_of(inp, key):
    if "cps" in inp:
        return "".join(chr(c) for c in inp["cps"])
    return inp[key]


def has_pair(text):
    """A lead surrogate immediately followed by a trail surrogate occurs verbatim in the text."""
    return any(0xD800 <= ord(a) <= 0xDBFF and 0xDC00 <= ord(b) <= 0xDFFF for a, b in zip(text, text[1:]))


def gen_block_values(alphabet, n):
    return list(strings_upto(alphabet, n))


SMALL_DOCS = [
    "{a}", "{ a b ...c }", "query Q($v: Int = 1, $w: [String!]! = [\"x\"]) @d(a: 1.5e3) { f(x: $v, y: -0, z: null) }",
    'fragment F on T { a: b(s: "\\u{1F600}\\n", t: """\n  x\n   y\n""") ... on U { c } ...G }',
    '"d" type T implements A & B @d { "fd" f(a: Int = 0): [T!]! } extend type T { g: T }',
    "enum E { A B } input I { a: Int = 1 b: E = A } union U = | A | B directive @d(a: I) repeatable on FIELD | QUERY",
    'schema { query: Q } scalar S @specifiedBy(url: "u") interface N implements M { id: ID! }',
    '{ a(b: {c: [1, 2.0, "s", true, $v, E, {d: null}]}) }',
    'query { f(s: """a\\"""b""", t: "", u: """""") }',
    "subscription S { x @a @b(c: 1) ... @c { y } }",
    "{ a ... b }", "{ a(x:1 ...b) }", "{ a(x: 1.5 y: 2) }", '{ a(x: "s" y: "t") }',
]


def _split_definitions(text):
    """Top-level definitions of a seed document (by brace depth on the implementation's token stream)."""
    from graphql.language import Lexer, Source, TokenKind

    lexer = Lexer(Source(text))
    toks = []
    while True:
        t = lexer.advance()
        if t.kind == TokenKind.EOF:
            break
        toks.append(t)
    from graphql.language import parse

    doc = parse(text)
    return [text[d.loc.start : d.loc.end] for d in doc.definitions]


def seed_documents():
    seeds = []
    for f in ("kitchen_sink.graphql", "schema_kitchen_sink.graphql"):
        p = fw.REPO / "tests" / "fixtures" / f
        if p.exists():
            seeds.append(p.read_text(encoding="utf-8"))
    return seeds


def mutate_document(rng, text):
    """Token-level mutation of a document: delete / duplicate / swap / replace a lexeme or a gap."""
    spans = [s for s in _tokens(text) if s[0] != s[1]]
    if not spans:
        return text
    pieces = []  # alternating gap, lexeme, gap, ...
    pos = 0
    for s, e in spans:
        pieces.append(text[pos:s])
        pieces.append(text[s:e])
        pos = e
    pieces.append(text[pos:])
    for _ in range(rng.randint(1, 3)):
        k = rng.randrange(len(spans))
        i = 2 * k + 1
        op = rng.choice(["del", "dup", "swap", "repl", "replbad", "gap", "glue"])
        if op == "del":
            pieces[i] = ""
        elif op == "dup":
            pieces[i] = pieces[i] + " " + pieces[i]
        elif op == "swap" and k + 1 < len(spans):
            pieces[i], pieces[i + 2] = pieces[i + 2], pieces[i]
        elif op == "repl":
            pieces[i] = rng.choice(rng.choice([POOL_NAMES, POOL_NUMS, POOL_STRINGS, POOL_BLOCKS, POOL_PUNCT]))
        elif op == "replbad":
            pieces[i] = rng.choice(rng.choice([POOL_BAD, POOL_BAD_STRINGS, POOL_BAD_BLOCKS]))
        elif op == "gap":
            pieces[i - 1] = rng.choice(POOL_IGNORED)
        else:
            pieces[i - 1] = ""
    return "".join(pieces)


def gen_documents(rng, n_valid, n_mut):
    seeds = seed_documents()
    defs = []
    for s in seeds:
        try:
            defs.append(_split_definitions(s))
        except Exception:  # noqa: BLE001 - a broken tree: fall back on the small documents
            defs.append([])
    docs = list(seeds) + list(SMALL_DOCS)
    valid = []
    for _ in range(n_valid):
        pool = rng.choice([d for d in defs if d] or [SMALL_DOCS])
        k = rng.randint(1, 3)
        sep = rng.choice(["\n", " ", "\n\n# c\n", ",", "\ufeff"])
        valid.append(sep.join(rng.choice(pool) for _ in range(k)))
    muts = []
    base = valid + SMALL_DOCS
    for _ in range(n_mut):
        muts.append(mutate_document(rng, rng.choice(base)))
    return docs, valid, muts


# ----------------------------------------------------------------------------- (2) insertion of ignored material


def _insert_work(args):
    tasks, _drv = args
    rep = Report()
    cache = {}
    st = rep.stats
    for text, pos, cls in tasks:
        if text not in cache:
            cache[text] = (_parse(text), _sig(text))
        base_ast, base_sig = cache[text]
        ins = dict(INSERTIONS)[cls]
        new = text[:pos] + ins + text[pos:]
        rep.evaluations += 1
        st["ins_" + cls] = st.get("ins_" + cls, 0) + 1
        st["base_" + base_ast[0]] = st.get("base_" + base_ast[0], 0) + 1
        inp = _inp("insert", "text", text, pos=pos, **{"class": cls})
        sig = _sig(new)
        if sig != base_sig:
            rep.failures.append(Failure(f"insert-{cls}-changes-tokens", f"inserting {cls} at a token boundary changes the token stream", inp, _short(sig), _short(base_sig), "C09-3 ignored_invariance"))
            continue
        ast = _parse(new)
        if ast[0] != base_ast[0]:
            rep.failures.append(Failure(f"insert-{cls}-changes-acceptance", f"inserting {cls} at a token boundary turns {base_ast[0]} into {ast[0]}", inp, ast[:2] if ast[0] != "ok" else "ok", base_ast[:2] if base_ast[0] != "ok" else "ok", "C09-3 ignored_invariance"))
        elif ast[0] == "ok" and ast[1] != base_ast[1]:
            rep.failures.append(Failure(f"insert-{cls}-changes-ast", f"inserting {cls} at a token boundary changes the parsed tree", inp, "different AST", "same AST", "C09-3 ignored_invariance"))
        elif ast[0] == "ok" and ast[1].token_count != base_ast[1].token_count:
            rep.failures.append(Failure(f"insert-{cls}-changes-token_count", f"inserting {cls} changes document.token_count", inp, ast[1].token_count, base_ast[1].token_count, "C09-5 token_limit"))
    rep.nontrivial = rep.evaluations
    if tasks:
        t = tasks[len(tasks) // 2]
        rep.samples.append({"insert": t[2], "at": t[1], "text": t[0][:80]})
    return rep


def _short(sig):
    return [list(x) if isinstance(x, tuple) else x for x in sig[:40]]


def insertion_tasks(rng, docs, muts, per_mut_boundaries):
    """docs: every boundary x every class; muts (recombined and mutated documents): a sample of boundaries."""
    tasks = []
    for text in docs:
        bounds = sorted({p for s in _tokens(text) for p in s} | {0})
        for p in bounds:
            for cls, _ in INSERTIONS:
                tasks.append((text, p, cls))
    for text in muts:
        bounds = sorted({p for s in _tokens(text) for p in s} | {0})
        if len(bounds) > per_mut_boundaries:
            bounds = sorted(rng.sample(bounds, per_mut_boundaries))
        for p in bounds:
            for cls, _ in INSERTIONS:
                tasks.append((text, p, cls))
    return tasks


# ----------------------------------------------------------------------------- (3) strip_ignored_characters


def _impl_strip(text):
    from graphql.error import GraphQLSyntaxError
    from graphql.utilities import strip_ignored_characters

    try:
        return ("ok", strip_ignored_characters(text))
    except GraphQLSyntaxError as e:
        return ("err", e.positions[0] if e.positions else -1)
    except Exception as e:  # noqa: BLE001
        return ("crash", type(e).__name__)


def _strip_work(args):
    texts, drv, with_ast = args
    rep = Report()
    driver = fw.Driver(drv) if drv else None
    outs = driver.run(["strip " + fw.cps(t) for t in texts]) if driver else [None] * len(texts)
    st = rep.stats
    for text, m in zip(texts, outs):
        rep.evaluations += 1
        r = _impl_strip(text)
        inp = _inp("strip", "text", text)
        if r[0] == "ok":
            canon = ("ok " + fw.cps(r[1])).rstrip()
        elif r[0] == "err":
            canon = "err"
        else:
            canon = "crash " + r[1]
        if m is not None:
            mc = m.rstrip() if m.startswith("ok") else ("err" if m.startswith("err") else m)
            if mc != canon:
                rep.disagreements.append(Disagreement("strip_ignored_characters", inp, canon[:300], mc[:300]))
        sig = _sig(text)
        lex_fails = bool(sig) and sig[-1] == "ERR"
        st["strip_" + r[0]] = st.get("strip_" + r[0], 0) + 1
        if has_pair(text):
            st["strip_pair_" + r[0]] = st.get("strip_pair_" + r[0], 0) + 1
            if r[0] == "ok" and '"""' in text:
                st["strip_pair_ok_with_block"] = st.get("strip_pair_ok_with_block", 0) + 1
        if r[0] == "crash":
            rep.failures.append(Failure("strip-raises-non-syntax-error", "strip_ignored_characters raises something other than GraphQLSyntaxError", inp, r[1], "text or syntax error", "C09-4"))
            continue
        if (r[0] == "err") != lex_fails:
            rep.failures.append(Failure("strip-rejection-differs", "strip_ignored_characters rejects a text the lexer accepts, or accepts one it rejects", inp, r[0], "err" if lex_fails else "ok", "C09-4 strip_rejects"))
            continue
        if r[0] != "ok":
            continue
        out = r[1]
        if out != text:
            rep.nontrivial += 1
        sig2 = _sig(out)
        if sig2 != sig:
            fp = "strip-changes-tokens"
            # name the pair of token kinds around the first difference: the usual cause is a missing separator
            for k, (x, y) in enumerate(itertools.zip_longest(sig, sig2)):
                if x != y:
                    prev = sig[k - 1][0] if k and isinstance(sig[k - 1], tuple) else "START"
                    cur = x[0] if isinstance(x, tuple) else str(x)
                    fp = f"strip-changes-tokens-{prev}-{cur}"
                    break
            rep.failures.append(Failure(fp, "the stripped text lexes to a different token stream", inp, {"stripped": out, "sig": _short(sig2)}, _short(sig), "C09-4 strip_tokens"))
            continue
        r2 = _impl_strip(out)
        if r2 != ("ok", out):
            rep.failures.append(Failure("strip-not-idempotent", "stripping twice differs from stripping once", inp, r2, out, "C09-4 strip_idem"))
            continue
        if with_ast:
            a, b = _parse(text), _parse(out)
            if a[0] != b[0]:
                rep.failures.append(Failure("strip-changes-acceptance", "parse accepts one of text / stripped text only", inp, b[:2] if b[0] != "ok" else "ok", a[:2] if a[0] != "ok" else "ok", "C09-4"))
            elif a[0] == "ok" and a[1] != b[1]:
                rep.failures.append(Failure("strip-changes-ast", "the stripped text parses to a different tree", inp, out, "same AST", "C09-4"))
    if texts:
        t = texts[len(texts) // 2]
        rep.samples.append({"strip": t[:80], "result": _impl_strip(t)[1] if _impl_strip(t)[0] == "ok" else "rejected"})
    return rep


def _pbs_work(args):
    values, drv = args
    from graphql.language.block_string import print_block_string

    rep = Report()
    driver = fw.Driver(drv) if drv else None
    if not driver:
        return rep
    lines = [f"pbs {m} " + fw.cps(v) for v in values for m in (0, 1)]
    outs = driver.run(lines)
    k = 0
    for v in values:
        for m in (0, 1):
            rep.evaluations += 1
            try:
                impl = ("ok " + fw.cps(print_block_string(v, minimize=bool(m)))).rstrip()
            except Exception as e:  # noqa: BLE001
                impl = "crash " + type(e).__name__
            if impl != outs[k].rstrip():
                rep.disagreements.append(Disagreement("print_block_string", _inp("pbs", "value", v, minimize=m), impl, outs[k]))
            k += 1
    return rep


# ----------------------------------------------------------------------------- (4) max_tokens / token_count


def _limit_work(args):
    texts, drv, seed = args
    import random

    rep = Report()
    driver = fw.Driver(drv) if drv else None
    st = rep.stats
    counts = driver.run(["count " + fw.cps(t) for t in texts]) if driver else [None] * len(texts)
    lines, meta = [], []
    for text, c in zip(texts, counts):
        base = _parse(text)
        if base[0] != "ok":
            continue
        rng = random.Random(f"c09-limit:{seed}:{text[:40]}")
        tc = base[1].token_count
        inp = _inp("limit", "text", text)
        rep.evaluations += 1
        if c is not None:
            if not c.startswith("ok") or int(c.split()[1]) != tc:
                rep.failures.append(Failure("token_count-differs", "document.token_count differs from the number of significant tokens of the lexical grammar", inp, tc, c, "C09-5 token_limit (spec count)"))
                continue
            n_true = int(c.split()[1])
        else:
            n_true = len(_sig(text))
        st["docs_with_comments"] = st.get("docs_with_comments", 0) + (1 if "#" in text else 0)
        ns = sorted({0, 1, max(0, n_true - 1), n_true, n_true + 1, rng.randint(0, n_true + 2), rng.randint(0, n_true + 2)})
        for n in ns:
            rep.evaluations += 1
            rep.nontrivial += 1
            r = _parse(text, max_tokens=n)
            inp = _inp("limit", "text", text, n=n)
            if r[0] == "ok" and n_true > n:
                rep.failures.append(Failure("max_tokens-accepts-too-many", f"max_tokens={n} accepts a document with {n_true} tokens", inp, "accepted", "rejected", "C09-5 token_limit"))
            elif r[0] != "ok" and n_true <= n:
                rep.failures.append(Failure("max_tokens-rejects-within-limit", f"max_tokens={n} rejects a document with {n_true} tokens", inp, r[:2], "accepted", "C09-5 token_limit"))
            elif r[0] == "ok" and r[1] != base[1]:
                rep.failures.append(Failure("max_tokens-changes-ast", "max_tokens changes the parsed tree", inp, "different AST", "same AST", "C09-5"))
            if r[0] in ("ok", "syntax"):
                lines.append(f"limit {n} " + fw.cps(text))
                meta.append((text, n, ("ok " + str(r[1].token_count)) if r[0] == "ok" else (f"limit {r[2]}" if "Document contains more than" in r[1] else "other-syntax-error")))
    if driver and lines:
        outs = driver.run(lines)
        for (text, n, impl), m in zip(meta, outs):
            if impl != m:
                rep.disagreements.append(Disagreement("advance_lexer-counter", _inp("limit", "text", text, n=n), impl, m))
    return rep


# ----------------------------------------------------------------------------- explore / search / replay

CORPUS_LEX = [
    '"\\', '"\\u12', '"\\uD83D\\u', "1.e3", "1a", "0x", "01", ".5", "..", "1.", "1e", "-", "\x0b", "a\x0bb", "a\ufeffb", "\ufeff{\ufeff}",
    '"\\u{000000041}"', '"\\u{00000041}"', '"\\u{110000}"', '"\\u{D800}"', '"\\uD83D\\uDE00"', '"\\uDE00\\uD83D"',
    '"😀"', '"\ud83d"', "#\ud83d\na", "#😀\ra", '""""""', '"""\\""""""', '""""', '"""""', '""" \n  a\n b\n\t\n"""',
    '"""\r\n\r\n"""', '"""a\rb\r\nc\nd"""', "a...b", "1...", "1 ...", "a#b\r\nc", "0.0e-0a", "1e+", "9E9", "_", "__a1",
    '"' + PAIR + '"', '"""' + PAIR + '"""', "#" + PAIR + "\na", "#" + PAIR, '"\ude00\ud83d"', '"""\ud83d\n\ude00"""', '"""  ' + PAIR_LO + '\n   ' + PAIR_HI + '"""', PAIR,
    '"\\b\\f\\n\\r\\t\\/\\\\\\""', '"\\u00e9"', '"\\u{e9}"', '"\\u{E9}"', '"\\uD800\\u0041"', '""" \\""" """', "'", "?", "\u2028", "\xa0",
]

CORPUS_STRIP = [
    "a b", "a ...b", "1 ...", "a 1", '"a" "b"', '"""a""" """b"""', "{ a ,, b }", "a\ufeffb", "1 a", "a:b", "$ a",
    '""" a"""', '"""a """', '"""\n a\n  b"""', '"""a""""', '"""a\\"""', '"""\\"""', '""" \n\t\n"""', '"""a\n\n b"""', '""" a\n b"""', '"""a\rb"""',
    '"""\n    a\n      b\n"""', '"""a\\"""', '"""a"\n"""', '"""a\\\n"""', "# c\n", "a # c", '"""\x0cx"""', '"""\u2028 a"""',
    'f(a: """ x\x0cy""")',
    # verbatim surrogate pairs in block strings (indentation, escaped triple quote, forced trailing new line),
    # strings and comments; the first one is the `example` beside `strip_tokens` in Props/C09.lean
    '"""\n  ' + PAIR + 'a\n   ' + PAIR + '""" #' + PAIR + '\n"' + PAIR + '"',
    '"""' + PAIR + '"""', '""" ' + PAIR + '\\""""""', '"""' + PAIR + '"\n"""', '"""\n    ' + PAIR + '\n      ' + PAIR_HI + '\n"""', '"""' + PAIR + '\\\n"""',
    '"""\r\n\t' + PAIR_LO + '\r\t b"""', 'a #' + PAIR + '\n b', '"' + PAIR + '" "' + PAIR + '"', '{ f(a: """ ' + PAIR + '\n  ' + PAIR + '""") }',
    '"""\ud83d\n\ude00"""', '"""\ud83d"""', '"\ude00\ud83d"', "#\ud83d\n",
]


def _corpus(name, key):
    """corpus/C09/<name>: one JSON object per line (minimised past failures and mutation witnesses)."""
    import json

    p = fw.VERIF / "corpus" / "C09" / name
    out = []
    if p.exists():
        for line in p.read_text(encoding="utf-8").splitlines():
            if line.strip():
                out.append(json.loads(line)[key])
    return out


def _all_texts(ctx):
    rng = ctx.sub_rng("c09-docs")
    quick = ctx.tier == "quick"
    docs, valid, muts = gen_documents(rng, 12 if quick else 60, 60 if quick else 600)
    return rng, docs, valid, muts


def _preload():
    """Import the implementation once in the parent: forked workers inherit the modules
    (no .pyc files are written, so every fresh import recompiles ~190 modules)."""
    fw.use_repo()
    import graphql  # noqa: F401
    import graphql.language.block_string  # noqa: F401
    import graphql.utilities  # noqa: F401
    import tools.lexcorr  # noqa: F401


def _dispatch(job):
    name, args = job
    return {"lex": _lex_work, "insert": _insert_work, "strip": _strip_work, "pbs": _pbs_work, "limit": _limit_work}[name](args)


def explore(ctx) -> Report:
    _preload()
    quick = ctx.tier == "quick"
    drv = DRIVER if ctx.driver else None
    n16 = 4 if quick else 5
    n32 = 3 if quick else 4
    if ctx.escalate and quick:
        n16 = 5
    rep = Report()
    W = fw.WORKERS * 4
    jobs = []

    # (1) lexer vs model vs spec
    rng = ctx.sub_rng("c09-lex")
    bodies = _corpus("lex.cases", "body") + list(CORPUS_LEX)
    bodies += [b for b in strings_upto(ALPHABET, n16)]
    seen = set(bodies)
    for b in strings_upto(ALPHABET_EXT, n32):
        if b not in seen:
            bodies.append(b)
    bodies += gen_lexeme_strings(rng, 6000 if quick else 60000, pair_rate=0.1)
    jobs += [("lex", (c, drv)) for c in fw.chunked(bodies, W)]
    rep.stats["lex_strings"] = len(bodies)

    # (2) insertion at token boundaries
    rng2, docs, valid, muts = _all_texts(ctx)
    tasks = insertion_tasks(rng2, docs, valid + muts, 10 if quick else 40)
    if quick:
        # the two kitchen-sink seeds: every boundary, a third of the classes per boundary (rotating);
        # the small documents: every boundary x every class; thorough: everything
        big = set(seed_documents())
        ncls = len(INSERTIONS)
        idx = {c: k for k, (c, _) in enumerate(INSERTIONS)}
        tasks = [t for t in tasks if t[0] not in big or (t[1] + idx[t[2]] + ctx.seed) % 3 == 0]
    # keep the tasks of one text together (per-worker cache)
    tasks.sort(key=lambda t: (len(t[0]), t[0], t[1]))
    jobs += [("insert", (c, drv)) for c in fw.chunked(tasks, W)]
    docs = docs + valid
    rep.stats["documents"] = len(docs)
    rep.stats["mutated_documents"] = len(muts)
    rep.stats["insertions"] = len(tasks)

    # (3) strip
    rng3 = ctx.sub_rng("c09-strip")
    texts = _corpus("strip.cases", "text") + list(CORPUS_STRIP) + docs + muts + gen_lexeme_strings(rng3, 4000 if quick else 40000, bad_rate=0.05, pair_rate=0.25)
    jobs += [("strip", (c, drv, True)) for c in fw.chunked(texts, W)]
    small = list(strings_upto(ALPHABET, 3 if quick else 5))
    small += ['"""' + v + '"""' for v in gen_block_values(['"', "\\", " ", "\n", "\r", "a", "\t"], 4 if quick else 6)]
    # all block strings over an alphabet with a verbatim surrogate pair (one symbol), a lone lead and a lone trail surrogate
    small += ['"""' + v + '"""' for v in gen_block_values(['"', "\\", " ", "\n", "a", PAIR, "\ud83d", "\ude00"], 4 if quick else 5) if "\ud83d" in v]
    jobs += [("strip", (c, drv, False)) for c in fw.chunked(small, W // 2)]
    rep.stats["strip_texts"] = len(texts) + len(small)
    vals = gen_block_values(['"', "\\", " ", "\n", "\r", "a", "\t"], 5 if quick else 6) + ["a" * 70, "a" * 71, "\u2028a", "a\x0cb\n c"]
    vals += [v for v in gen_block_values(['"', "\\", " ", "\n", "a", PAIR], 4 if quick else 5) if PAIR in v]
    jobs += [("pbs", (c, drv)) for c in fw.chunked(vals, W // 4)]

    # (4) token limit
    lim = docs + muts + SMALL_DOCS
    jobs += [("limit", (c, drv, ctx.seed)) for c in fw.chunked(lim, W // 2)]

    # largest jobs first
    for r in fw.pmap(_dispatch, jobs):
        rep.merge(r)

    rep.rule = (
        f"(1) all strings of length <= {n16} over the 16-symbol alphabet {ALPHABET!r} and of length <= {n32} over the "
        f"32-symbol alphabet (exhaustive), corpus, seeded lexeme sequences: implementation lexer vs model vs spec tokenizer; "
        "non-trivial = rejected or at least one significant token. (2) seed / recombined / mutated documents x "
        "token boundaries x 9 Ignored classes (quick: every boundary of the two kitchen-sink seeds with a rotating third of "
        "the classes, every boundary x every class for the small documents, 10 sampled boundaries for recombined / "
        "mutated documents; thorough: everything). (3) strip on documents, mutated documents, lexeme sequences, all short "
        "strings, all block strings over a 7-symbol alphabet and over an 8-symbol alphabet with a verbatim surrogate "
        "pair, a lone lead and a lone trail surrogate; a quarter of the lexeme sequences draw their strings, block strings "
        "and comments from pools with verbatim / broken surrogate pairs (stats strip_pair_*); non-trivial = stripped text "
        "differs from the input. "
        "(4) max_tokens in {0,1,n-1,n,n+1,random} for every parsable document."
    )
    rep.exhaustive = True
    return rep


def search(ctx, rep) -> Report:
    # explore() already evaluates every property oracle on the implementation for every case and
    # escalates the exhaustive bound when ctx.escalate is set; widen the random part here.
    _preload()
    drv = DRIVER if ctx.driver else None
    out = Report()
    rng = ctx.sub_rng("c09-search")
    bodies = gen_lexeme_strings(rng, 40000, bad_rate=0.3)
    for r in fw.pmap(_lex_work, [(c, drv) for c in fw.chunked(bodies, fw.WORKERS * 4)]):
        out.merge(r)
    texts = gen_lexeme_strings(rng, 20000, bad_rate=0.05, pair_rate=0.25)
    for r in fw.pmap(_strip_work, [(c, drv, True) for c in fw.chunked(texts, fw.WORKERS * 4)]):
        out.merge(r)
    if ctx.driver is None:
        out.notes.append("model driver unavailable: spec-tokenizer oracle skipped; metamorphic oracles still ran")
    return out


def replay(ctx, payload) -> Report:
    _preload()
    drv = DRIVER if ctx.driver else None
    inp = payload["input"]
    kind = inp.get("kind")
    if kind == "lex":
        return _lex_work(([_text_of(inp, "body")], drv))
    if kind == "insert":
        return _insert_work(([(_text_of(inp, "text"), inp["pos"], inp["class"])], drv))
    if kind == "strip":
        return _strip_work(([_text_of(inp, "text")], drv, True))
    if kind == "pbs":
        return _pbs_work(([_text_of(inp, "value")], drv))
    if kind == "limit":
        return _limit_work(([_text_of(inp, "text")], drv, ctx.seed))
    return Report(notes=[f"unknown replay kind {kind!r}"])
