"""C16 — leaf results are serialised within the specification's value domains."""
from __future__ import annotations

import ast
import math
import re
from pathlib import Path

from tools import c16_values as cv
from tools import fw
from tools.fw import Disagreement, Failure, Report

ID = "C16"
PROPS = "Gql.Props.C16"
DRIVER = "drv_c16"
LEVEL = "proof"
LEVEL_TEXT = (
    "Lean theorems, for every Python value (bool/int/float/str/list/tuple/dict/other object, unbounded) and "
    "every built-in scalar and every enum definition: output coercion yields a value of the type's domain "
    "(Int within 32 bits, Float finite, String/ID text, Boolean a bool, enum one of its names) or an error; "
    "an emitted Int/Float is exactly the number returned (no silent precision loss, integers a double cannot "
    "hold are refused); complete_leaf_value's TypeError branch is dead; an emitted value is accepted back by "
    "the same type's input coercion with a Python-equal result; exceptions other than GraphQLError arise only "
    "from str(int) beyond CPython's digit limit or the object's own __str__. The model is tied to scalars.py / "
    "definition.py / executor.py by a correspondence run over a value zoo (~330 values) plus seeded random "
    "values x 5 scalars and generated enums (True/1/1.0 collisions, None values, unhashable values), also "
    "observed through execute_sync; GRAPHQL_MIN/MAX_INT and the integer-string regex are re-extracted from the "
    "source on every run and re-proved to be the 32-bit bounds."
)
LEVEL_NOTE = (
    "Trusted: Lean kernel; hand-written models Gql/Values/{PyVal,Scalars,Enum}.lean (tied by correspondence, "
    "not by translation); CPython's int(str)/float(str)/float(int)/str(float)/str(int) are parameters of the "
    "theorems (three laws about float(int) assumed and spot-checked); objects with custom __eq__/__hash__/"
    "__int__/__float__ overrides and identity shortcuts of == on shared nan objects are outside the model."
)
TECHNIQUE = "Lean 4 theorems about an executable model + differential correspondence check against the implementation"
TRUSTED = [
    "hand-written Lean models Gql/Values/PyVal.lean, Scalars.lean, Enum.lean of serialize_*/coerce_* "
    "(scalars.py), GraphQLEnumType._value_lookup/coerce_output_value/coerce_input_value (definition.py), "
    "complete_leaf_value (executor.py); tied to the code by the correspondence run",
    "CPython conversions int(str), float(str), float(int), str(float), str(int): parameters of the model, "
    "supplied per case by CPython itself",
    "T1 extractor (checks/c16.py extract) reading scalars.py / value_to_literal.py with ast",
]
ASSUMPTIONS = [
    "PyConv.Laws: float(int) is finite or raises OverflowError, is a whole number, and is exact for |z| <= 2^53 "
    "(used only by serializeFloat_int_lossless and serialize_then_parse for Float; spot-checked on every int of the run)",
    "opaque objects have identity ==/hash and no numeric/str base class; enum names are unique (dict keys)",
    "Python's == identity shortcut inside containers (the same nan object on both sides) is not modelled",
]
EXPLANATION = (
    "Theorems: serialize_domain, enum_domain, complete_leaf_domain, complete_leaf_crash_is_coercers, "
    "serializeInt_exact, serializeFloat_int_exact/_lossless, float_and_int_faithful, serialize_then_parse, "
    "enum_serialize_then_parse, crash_sources, enum_no_crash, consts_are_int32, integer_regex_text. "
    "Correspondence: model vs coerce_output_value / coerce_input_value of the five scalars and generated enums, and "
    "vs execute_sync leaf completion. Oracles on the implementation for every case: domain, exactness, "
    "serialize-then-parse, response shape."
)

SCALARS = ["Int", "Float", "String", "Boolean", "ID"]


# ----------------------------------------------------------------------------- T1


def _const_eval(node):
    if isinstance(node, ast.Constant) and isinstance(node.value, (int, str)):
        return node.value
    if isinstance(node, ast.UnaryOp) and isinstance(node.op, ast.USub):
        return -_const_eval(node.operand)
    if isinstance(node, ast.BinOp):
        a, b = _const_eval(node.left), _const_eval(node.right)
        if isinstance(node.op, ast.Pow):
            return a**b
        if isinstance(node.op, ast.Sub):
            return a - b
        if isinstance(node.op, ast.Add):
            return a + b
        if isinstance(node.op, ast.Mult):
            return a * b
        if isinstance(node.op, ast.LShift):
            return a << b
    raise ValueError(f"not a constant expression: {ast.dump(node)[:80]}")


def _assignments(path: Path):
    tree = ast.parse(path.read_text())
    out = {}
    for node in tree.body:
        if isinstance(node, ast.Assign) and len(node.targets) == 1 and isinstance(node.targets[0], ast.Name):
            out[node.targets[0].id] = node.value
        elif isinstance(node, ast.AnnAssign) and isinstance(node.target, ast.Name) and node.value is not None:
            out[node.target.id] = node.value
    return out


def _regex_text(node):
    if isinstance(node, ast.Call) and node.args:
        return _const_eval(node.args[0])
    raise ValueError("_re_integer_string is not a re.compile(<literal>) call")


def extract(repo, lean):
    repo, lean = Path(repo), Path(lean)
    a = _assignments(repo / "src/graphql/type/scalars.py")
    b = _assignments(repo / "src/graphql/utilities/value_to_literal.py")
    mx = _const_eval(a["GRAPHQL_MAX_INT"])
    mn = _const_eval(a["GRAPHQL_MIN_INT"])
    r1 = _regex_text(a["_re_integer_string"])
    r2 = _regex_text(b["_re_integer_string"])
    if not (isinstance(mx, int) and isinstance(mn, int) and isinstance(r1, str) and isinstance(r2, str)):
        raise ValueError("unexpected constant types")
    cps = lambda s: "[" + ", ".join(str(ord(c)) for c in s) + "]"  # noqa: E731
    text = (
        "-- GENERATED by checks/c16.py `extract` from src/graphql/type/scalars.py (T1 table). Do not edit.\n"
        "namespace Gql.Generated.ScalarConsts\n\n"
        f"def graphqlMaxInt : Int := {mx}\n"
        f"def graphqlMinInt : Int := {mn}\n"
        "/-- source text of `_re_integer_string` as code points -/\n"
        f"def reIntegerString : List Nat := {cps(r1)}\n"
        "/-- the same pattern in value_to_literal.py -/\n"
        f"def reIntegerStringV2L : List Nat := {cps(r2)}\n\n"
        "end Gql.Generated.ScalarConsts\n"
    )
    p = lean / "Gql/Generated/ScalarConsts.lean"
    p.parent.mkdir(exist_ok=True)
    if not p.exists() or p.read_text() != text:
        p.write_text(text)
        return [str(p.relative_to(lean))]
    return []


# ----------------------------------------------------------------------------- the zoo


class StrBoom(Exception):
    pass


def _classes():
    import enum

    class MyInt(int):
        pass

    class MyFloat(float):
        pass

    class MyStr(str):
        __slots__ = ()

    class Color(enum.Enum):
        RED = 1

    class Num(enum.IntEnum):
        ONE = 1
        BIG = 2**31

    class WithStr:
        def __init__(self, s):
            self.s = s

        def __str__(self):
            return self.s

    class RaisingStr:
        def __str__(self):
            raise StrBoom("no")

    class NonStrStr:
        def __str__(self):
            return 5  # TypeError from str()

    class Plain:
        pass

    return locals()


def zoo(undefined):
    """(value factories) — each call gives fresh objects (fresh nan, fresh lists)."""
    import decimal
    import fractions

    C = _classes()
    ints = [
        0, 1, -1, 2, 7, 2**31 - 1, 2**31, -(2**31), -(2**31) - 1, 2**32, 2**53 - 1, 2**53, 2**53 + 1, 2**53 + 2,
        -(2**53) - 1, 2**63, 2**64, 10**22, 10**23, 2**1023, 2**1024 - 2**970, 2**1024 - 2**970 + 1, 2**1024,
        2**1024 + 1, -(2**1024), 10**400, 10**4299, 10**4300 - 1, 10**4300, -(10**5000),
    ]
    floats = [
        0.0, -0.0, 1.0, -1.0, 1.5, -1.5, 0.1, 0.5, 2.0**31, 2.0**31 - 1, -(2.0**31), -(2.0**31) - 1, 2147483647.5,
        -2147483648.5, 2.0**53, 2.0**53 + 2, 1e22, 1e23, 1e308, 1.7976931348623157e308, 5e-324, 2.2250738585072014e-308,
        1e-7, 123456789.125, 1e16, 1e15 + 0.5, 3.0, 1e400, -1e400,
    ]
    strs = [
        "", " ", "  ", "0", "1", "-1", "+1", " 1", "1 ", " -1 ", "1_0", "_1", "1_", "1__0", "١", "１２", "0x10",
        "0b1", "0o7", "1e3", "1E3", "1.0", "1.5", ".5", "5.", "-.5e-3", "nan", "NaN", "inf", "-inf", "Infinity", "-infinity",
        "1e400", "-1e400", "1e-400", "2147483647", "2147483648", "-2147483648", "-2147483649", "9007199254740993", "true",
        "True", "false", "abc", "\x00", "é", "\ud800", "1\n", "\t1\n", "1" * 4300, "1" * 4301, "1,000", "١٢.٥",
        "1e", "e1", " 1", "1 ", "--1", "+-1", "1 0", "0_0", "00", "-0", "-0.0", "٣", "1_000.5", "0x", "1j", "١e٢",
        "Undefined", "None", "A", "B",
    ]
    out = []
    out += [lambda: None, lambda: undefined, lambda: True, lambda: False]
    out += [(lambda z=z: z) for z in ints]
    out += [lambda: C["MyInt"](5), lambda: C["MyInt"](2**40), lambda: C["Num"].ONE, lambda: C["Num"].BIG]
    out += [(lambda f=f: f) for f in floats]
    out += [lambda: float("nan"), lambda: float("inf"), lambda: float("-inf"), lambda: C["MyFloat"](2.5), lambda: C["MyFloat"](3.0)]
    out += [(lambda s=s: s) for s in strs]
    out += [lambda: C["MyStr"]("12"), lambda: C["MyStr"]("x")]
    out += [
        lambda: b"", lambda: b"1", lambda: bytearray(b"1"), lambda: [], lambda: [1], lambda: (1,), lambda: (), lambda: {},
        lambda: {"a": 1}, lambda: set(), lambda: {1}, lambda: frozenset(), lambda: [[1]], lambda: range(3), lambda: [True],
        lambda: [float("nan")], lambda: (1, [2]), lambda: {"a": [1]}, lambda: {1: 2},
    ]
    out += [
        lambda: object(), lambda: C["WithStr"]("x"), lambda: C["WithStr"](""), lambda: C["WithStr"]("1"), lambda: C["WithStr"]("\ud800"),
        lambda: C["RaisingStr"](), lambda: C["NonStrStr"](), lambda: C["Plain"](), lambda: C["Color"].RED,
        lambda: decimal.Decimal("1"), lambda: decimal.Decimal("NaN"), lambda: fractions.Fraction(1, 2), lambda: complex(1, 0),
        lambda: NotImplemented, lambda: Ellipsis, lambda: int, lambda: len, lambda: (lambda: 0), lambda: C["Plain"],
    ]
    return out


def random_values(rng, n):
    out = []
    alphabet = "0123456789+-_.eE x١ \n"
    for _ in range(n):
        k = rng.randrange(8)
        if k == 0:
            bits = rng.choice([8, 31, 32, 33, 52, 53, 54, 64, 100, 1023, 1024, 1025, 2000])
            z = rng.getrandbits(bits) * rng.choice([1, -1])
            out.append(lambda z=z: z)
        elif k == 1:
            z = rng.choice([2**31, 2**53, 2**63, 2**1024]) + rng.randint(-3, 3)
            out.append(lambda z=z: z * rng.choice([1]))
        elif k in (2, 3):
            f = cv.float_from_bits(rng.getrandbits(64))
            out.append(lambda f=f: f if f == f else float("nan"))
        elif k == 4:
            f = float(rng.randint(-(2**33), 2**33)) + rng.choice([0.0, 0.0, 0.5, 0.25])
            out.append(lambda f=f: f)
        elif k in (5, 6):
            s = "".join(rng.choice(alphabet) for _ in range(rng.randint(0, 6)))
            out.append(lambda s=s: s)
        else:
            z = rng.randint(-(2**31) - 2, 2**31 + 2)
            s = rng.choice(["{}", " {}", "{}.0", "{}e0", "+{}"]).format(z)
            out.append(lambda s=s: s)
    return out


def gen_enums(rng, n, undefined):
    """[(names->value factories)] — definitions with collisions, None values, unhashables."""
    C = _classes()
    shared = [C["Plain"](), object(), C["Color"].RED, b"1"]
    pool = [
        lambda: 0, lambda: 1, lambda: 2, lambda: True, lambda: False, lambda: 1.0, lambda: 0.0, lambda: -0.0, lambda: 2.5,
        lambda: float("nan"), lambda: float("inf"), lambda: "A", lambda: "B", lambda: "x", lambda: "", lambda: None,
        lambda: undefined, lambda: (1,), lambda: (1, 2), lambda: (True,), lambda: [1], lambda: [1, 2], lambda: [], lambda: {"a": 1},
        lambda: {"a": 1.0}, lambda: {}, lambda: (1, [2]), lambda: [[1]], lambda: 2**53, lambda: float(2**53), lambda: 2**53 + 1,
        lambda: shared[0], lambda: shared[1], lambda: shared[2], lambda: shared[3], lambda: [None], lambda: ("A",),
        lambda: {"a": 1, "b": 2}, lambda: {"b": 2, "a": 1}, lambda: 10**30,
    ]
    fixed = [
        [("A", lambda: 1), ("B", lambda: True), ("C", lambda: 1.0)],
        [("A", lambda: True), ("B", lambda: 1)],
        [("A", lambda: None), ("B", lambda: undefined), ("C", lambda: "A")],
        [("A", lambda: [1]), ("B", lambda: [1]), ("C", lambda: (1,))],
        [("A", lambda: {"a": 1}), ("B", lambda: 0), ("C", lambda: False), ("D", lambda: -0.0)],
        [("A", lambda: "B"), ("B", lambda: "A")],
        [("A", lambda: "B"), ("B", lambda: None)],
    ]
    enums = list(fixed)
    names = ["A", "B", "C", "D", "E", "F"]
    for _ in range(n):
        k = rng.randint(1, 6)
        enums.append([(names[i], rng.choice(pool)) for i in range(k)])
    probes = pool + [lambda: "C", lambda: "D", lambda: 1.5, lambda: -1, lambda: (2,), lambda: [2], lambda: {"a": 2}, lambda: C["Plain"]()]
    return enums, probes


# ----------------------------------------------------------------------------- running cases


def srepr(v, n=200):
    try:
        with cv.unlimited_digits():
            s = repr(v)
    except Exception as e:  # noqa: BLE001
        s = f"<{type(v).__name__}: repr raises {type(e).__name__}>"
    return s if len(s) <= n else s[: n // 2] + "..." + s[-n // 2 :]


def _outcome(fn, arg, reg, undefined, opaque_str_crash=False):
    from graphql import GraphQLError

    try:
        r = fn(arg)
    except GraphQLError:
        return "err", None
    except Exception as e:  # noqa: BLE001
        name = type(e).__name__
        if opaque_str_crash:
            name = "Exception"
        return "crash " + name, None
    return "ok " + cv.enc_val(r, reg, undefined, short=True), r


def _in_domain(tname, names, r):
    if tname == "Int":
        return type(r) is int and -(2**31) <= r <= 2**31 - 1
    if tname == "Float":
        return (type(r) is float and math.isfinite(r)) or (type(r) is int and abs(r) <= 2**53)
    if tname in ("String", "ID"):
        return isinstance(r, str)
    if tname == "Boolean":
        return type(r) is bool
    return isinstance(r, str) and r in names


def _exact(tname, v, r):
    """no silent precision loss: the emitted number is exactly the number returned"""
    if isinstance(v, bool) or not isinstance(v, (int, float)):
        return True
    if isinstance(v, float) and not math.isfinite(v):
        return True
    try:
        if tname in ("Int", "Float"):
            return r == v  # Python compares int/float exactly
        if tname == "ID":
            with cv.unlimited_digits():
                return int(r) == v
        if tname == "String" and isinstance(v, int):
            with cv.unlimited_digits():
                return int(r) == v
        if tname == "String":
            return float(r) == v
        if tname == "Boolean":
            return r == (v != 0)
    except Exception:  # noqa: BLE001
        return False
    return True


def _work(args):
    kind, payload, seed, drv = args
    fw.use_repo()
    import graphql
    from graphql import (
        GraphQLEnumType,
        GraphQLField,
        GraphQLObjectType,
        GraphQLSchema,
        execute_sync,
        parse,
    )
    from graphql.pyutils import Undefined

    rep = Report()
    reg = cv.Registry()
    driver = fw.Driver(drv) if drv else None
    cases = []  # (typename, leaf tokens, type obj, names, value)
    if kind == "scalar":
        lo, hi, n = payload
        values = _values_n(seed, n)[lo:hi]
        for tname in SCALARS:
            t = getattr(graphql, "GraphQL" + tname)
            for v in values:
                cases.append((tname, "sc " + tname, t, None, v))
    else:
        lo, hi, n = payload
        for defn, probes in _enum_pairs(seed, n, Undefined)[lo:hi]:
            vals = {name: f() for name, f in defn}
            t = GraphQLEnumType("E", dict(vals))
            toks = f"en {len(vals)} " + " ".join(cv.enc_str(n) + " " + cv.enc_val(x, reg, Undefined) for n, x in vals.items())
            for v in probes:
                cases.append(("enum", toks, t, list(vals), v))
    lines, meta = [], []
    doc = parse("{ f }")
    for tname, toks, t, names, v in cases:
        opaque = cv.is_opaque(v, Undefined)
        raising_str = opaque and type(v).__module__ != "builtins" and cv.probe_str(v) is None
        impl, r = _outcome(t.coerce_output_value, v, reg, Undefined, raising_str and tname in ("String", "ID"))
        conv = cv.conv_table([v] + ([r] if r is not None else []), Undefined)
        venc = cv.enc_val(v, reg, Undefined)
        inp = {"type": tname if names is None else {"enum": {n: srepr(t.values[n].value) for n in names}}, "value": srepr(v)}
        lines.append(f"out {toks} {conv} {venc}")
        meta.append(("out", inp, impl))
        rep.evaluations += 1
        key = impl.split(" ")[0]
        rep.stats[f"{tname}:{key}"] = rep.stats.get(f"{tname}:{key}", 0) + 1
        if len(rep.samples) < 3 and key == "ok" and not isinstance(v, str):
            rep.samples.append({**inp, "impl": impl})
        # ---- property oracles on the implementation
        if r is not None or impl.startswith("ok"):
            if not _in_domain(tname, names, r):
                rep.failures.append(Failure(f"{tname}-domain", f"{tname} output coercion emitted a value outside the type's domain", inp, srepr(r), "a value of the domain or an error", "C16-1 serialize_domain/enum_domain"))
            elif not _exact(tname, v, r):
                rep.failures.append(Failure(f"{tname}-precision", f"{tname} output coercion changed the number it was given", inp, srepr(r), srepr(v), "C16-2 serializeInt_exact/serializeFloat_int_lossless"))
            else:
                impl2, r2 = _outcome(t.coerce_input_value, r, reg, Undefined)
                ok = impl2.startswith("ok")
                if ok and names is None:
                    ok = (r2 == r) and (type(r2) is type(r) or tname == "Float")
                elif ok:
                    w = r2
                    try:
                        ok = bool(w == v) or ((w is None or w is Undefined) and r == v)
                    except Exception:  # noqa: BLE001
                        ok = False
                if not ok:
                    rep.failures.append(Failure(f"{tname}-roundtrip", f"a value emitted by {tname} is not accepted back by the same type's input coercion with the same meaning", inp, [srepr(r), impl2], "accepted, equal", "C16-3 serialize_then_parse"))
                lines.append(f"in {toks} {cv.conv_table([r], Undefined)} {cv.enc_val(r, reg, Undefined)}")
                meta.append(("in", {**inp, "emitted": srepr(r)}, impl2))
        # ---- the same through the executor (leaf completion inside ExecutionResult.data)
        if v is not None and v is not Undefined:
            schema = GraphQLSchema(GraphQLObjectType("Query", {"f": GraphQLField(t, resolve=lambda *_a, v=v: v)}))
            try:
                res = execute_sync(schema, doc)
                shape = ("data", res.data, len(res.errors or []))
            except Exception as e:  # noqa: BLE001
                shape = ("raise", type(e).__name__, 0)
            rep.evaluations += 1
            if impl.startswith("ok"):
                want_ok = shape[0] == "data" and shape[2] == 0 and isinstance(shape[1], dict) and cv.enc_val(shape[1].get("f"), reg, Undefined, short=True) == impl[3:]
            else:
                want_ok = shape[0] == "data" and shape[2] == 1 and shape[1] == {"f": None}
            if not want_ok:
                rep.failures.append(Failure("exec-leaf", "execute_sync did not deliver the coerced leaf value / a single field error with null", inp, srepr(shape, 300), impl, "C16-1 complete_leaf_domain"))
            lines.append(f"leaf {toks} {conv} {venc}")
            meta.append(("leaf", inp, impl if not impl.startswith("crash TypeError") else impl))
    outs = driver.run(lines) if driver else [None] * len(lines)
    for (op, inp, impl), out in zip(meta, outs):
        if out is None:
            continue
        if out.startswith("bad-"):
            raise fw.InfraError(f"driver could not parse a case: {out}: {inp}")
        if "63 77 73 83 83 63" in out or "999999999999" in out:
            raise fw.InfraError(f"conversion table incomplete for {inp}")
        if out != impl:
            comp = {"out": "coerce_output_value", "in": "coerce_input_value", "leaf": "complete_leaf_value"}[op]
            rep.disagreements.append(Disagreement(comp, inp, impl, out))
    return rep


def _law_check(values, rep):
    for v in values:
        if isinstance(v, bool) or not isinstance(v, int):
            continue
        try:
            f = float(v)
        except OverflowError:
            continue
        ok = math.isfinite(f) and f == int(f) and (abs(v) > 2**53 or f == v)
        if not ok:
            rep.disagreements.append(Disagreement("PyConv.Laws(float(int))", istr_short(v), repr(f), "finite, whole, exact below 2^53"))


def istr_short(z):
    s = cv.istr(z)
    return s if len(s) < 60 else s[:25] + "..." + s[-25:]


def _values_n(seed, n):
    """deterministic in (seed, n): workers rebuild the list (the objects do not pickle)"""
    import random

    fw.use_repo()
    from graphql.pyutils import Undefined

    rng = random.Random(f"{seed}:c16-values")
    return [f() for f in zoo(Undefined)] + [f() for f in random_values(rng, n)]


def _enum_pairs(seed, n, undefined):
    import random

    rng = random.Random(f"{seed}:c16-enums")
    enums, probes = gen_enums(rng, n, undefined)
    return [(defn, [f() for f in probes] + [f() for _, f in defn]) for defn in enums]


def _ranges(total, parts):
    k = max(1, (total + parts - 1) // parts)
    return [(i, min(total, i + k)) for i in range(0, total, k)]


def explore(ctx) -> Report:
    fw.use_repo()
    from graphql.pyutils import Undefined

    drv = DRIVER if ctx.driver else None
    n = 700 if ctx.tier == "quick" else 20000
    ne = 50 if ctx.tier == "quick" else 2000
    if ctx.escalate:
        n, ne = n * 2, ne * 2
    values = _values_n(ctx.seed, n)
    rep = Report()
    _law_check(values, rep)
    jobs = [("scalar", (lo, hi, n), ctx.seed, drv) for lo, hi in _ranges(len(values), fw.WORKERS * 2)]
    pairs = _enum_pairs(ctx.seed, ne, Undefined)
    enums = pairs
    probes = pairs[0][1]
    jobs += [("enum", (lo, hi, ne), ctx.seed, drv) for lo, hi in _ranges(len(pairs), fw.WORKERS * 2)]
    for r in fw.pmap(_work, jobs):
        rep.merge(r)
    nz = len(zoo(Undefined))
    rep.nontrivial = sum(v for k, v in rep.stats.items() if isinstance(v, int) and (k.endswith(":ok") or k.endswith(":crash")))
    rep.rule = (
        f"zoo of {nz} hand-picked values (bool, int incl. > 2^31/2^53/2^1024/4300 digits, int/float/str subclasses, float incl. "
        f"-0.0/nan/inf/subnormal/overflow, numeric-looking and non-ASCII strings, bytes, containers, objects with __str__) + "
        f"{len(values) - nz} seeded random ints/floats/strings, each x 5 built-in scalars; {len(enums)} enum definitions "
        f"(fixed collision cases + seeded) x {len(probes)}+ probe values; every case through coerce_output_value, "
        "coerce_input_value of the emitted value, and execute_sync. non-trivial = cases where a value or a non-GraphQLError "
        "exception comes out (not the plain rejection)"
    )
    rep.stats["values"] = len(values)
    rep.stats["enums"] = len(enums)
    return rep


def search(ctx, rep) -> Report:
    # every generated case is already evaluated against the property oracles in explore();
    # after a break, widen the random part once
    if ctx.tier == "quick":
        ctx2 = fw.Ctx(ctx.prop, "quick", ctx.seed + 1000003, ctx.rng, ctx.driver, ctx.model_ok, escalate=True, t0=ctx.t0)
        extra = explore(ctx2)
        extra.disagreements = []
        return extra
    return Report()


def replay(ctx, payload) -> Report:
    # failing inputs are reprs of zoo/random values: re-run the exploration of the recorded seed
    # and keep what matches the recorded fingerprint
    rep = explore(ctx)
    fp = payload.get("fingerprint")
    if fp:
        rep.failures = [f for f in rep.failures if f.fingerprint == fp] or rep.failures
    return rep
