"""C17 — a schema survives printing to SDL and rebuilding."""
from __future__ import annotations

import json
import os
import random
from pathlib import Path

from tools import c17_gen as g
from tools import fw
from tools.c17_extract import extract  # noqa: F401  (T1 table: names the printer/builder treat specially)
from tools.fw import Disagreement, Failure, Report

ID = "C17"
PROPS = "Gql.Props.C17"
DRIVER = "drv_c17"
LEVEL = "proof"
LEVEL_TEXT = (
    "Lean theorems on schema content (ordered types, fields, arguments, default literals, descriptions, "
    "deprecations, directives with locations/repeatable, interfaces, members, enum values, OneOf, specifiedBy, "
    "roots, schema description), for all well-formed schemas with no size bound: building the definitions "
    "print_schema emits gives back exactly the same schema (same order), printing the rebuilt schema gives the "
    "same definitions, the rebuilt schema is well-formed, and find_schema_changes reports nothing; the rule for "
    "omitting the `schema {}` block is proved consistent with build_ast_schema's root lookup by name. "
    "Text level: print_schema is modelled down to the code points (printSchemaText: descriptions, blank lines, "
    "argument wrapping, defaults through the print_ast value printer); proved with C08's lexer and C01's parser "
    "model: the printed text lexes to exactly the tokens of the emitted definitions (text_lexes), parses to their "
    "document (text_roundtrip), which read back as definitions is schemaToDefs s and builds back to the same schema "
    "(text_roundtrip_defs, text_build_roundtrip), for every "
    "well-formed schema whose printed definitions are well formed in C08's sense (TextWF). TextWF follows from the "
    "decidable Bool predicate textWFb on the schema content (textWF_of_textWFb; the four text theorems restated with it: "
    "text_lexes_b, text_roundtrip_b, text_build_roundtrip_b, text_roundtrip_defs_b), and the check evaluates textWFb "
    "through the driver on every generated / corpus schema that validate_schema accepts and requires it to be true. "
    "The models are tied to "
    "print_schema / build_ast_schema / extend_schema by a correspondence run over generated schemas (SDL-built "
    "and programmatically assembled), the text model code point for code point; the round-trip relations of the "
    "property are evaluated directly on the implementation for every generated schema."
)
LEVEL_NOTE = (
    "The text theorems carry the hypothesis TextWF (the translated definitions satisfy C08's Exec.gdefsWf), or in the "
    "_b form the decidable textWFb (Gql/Types/PrintSchemaTextWF.lean: valid "
    "names, strings of Unicode scalar values, block descriptions representable, well-formed const default literals "
    "incl. the specification's number grammar as a recogniser, "
    "parser-shaped type references, enum values other than true/false/null, locations from the parser table, the "
    "directives-on-directive-definitions flag when a directive is deprecated); textWFb is proved sufficient for TextWF "
    "(not necessary), is not derived from "
    "WFSchema or from validate_schema: that every valid schema satisfies it is observed (the `textwf` stream: T on every "
    "valid generated schema; without the flag exactly when no directive is deprecated), not proved; both are "
    "shown satisfiable on a schema using every definition kind and layout. The parsed tree is C08's "
    "generic AST of typed document trees; gdefsToDefs reads those trees as C17's definition AST and is proved to give "
    "back exactly schemaToDefs s when default values are proper literals (schemaShaped, decidable); the step generic "
    "AST -> typed tree is C08's gdocAst (injective by construction, not separately proved). Programmatic default values reach the model after the "
    "implementation's value_to_literal/ast_from_value (C15). SDL validation (assert_valid_sdl) and validate_schema "
    "are not modelled (WFSchema is the part the theorems need); the rebuilt schema's validity is observed on the "
    "implementation. Hand-written models tied by correspondence, not by translation. A layout-only change of "
    "print_schema breaks the text correspondence (the model must follow) although the property still holds."
)
TECHNIQUE = "Lean 4 proof about an executable model + differential correspondence + metamorphic oracles on the implementation"
TRUSTED = [
    "hand-written Lean models Gql/Types/Schema.lean, SchemaAst.lean (schemaToDefs = print_schema at definition level, "
    "buildFromDefs = build_ast_schema/extend_schema builders), Diff.lean (find_schema_changes); tied to the code by the "
    "correspondence run",
    "hand-written Lean model Gql/Types/PrintSchemaText.lean (print_schema at text level); tied by the `text` correspondence stream",
    "hand-written Lean predicate Gql/Types/PrintSchemaTextWF.lean (textWFb, the domain of the text theorems); evaluated by the `textwf` stream on every valid schema",
    "the lexer / parser / print_string / print_block_string models — C08 and C01's; reused by the text theorems",
    "tools/c17_gen.py: generator, schema -> content extraction (reads type_map, fields, get_default_value_ast), S-expression codec",
]
ASSUMPTIONS = [
    "valid schema = validate_schema(s) == [] and the schema carries the specified directives and no two directives of the same name "
    "(SDL cannot express their absence; GraphQLSchema does not check directive name uniqueness)",
    "strings are sequences of Unicode scalar values (no lone surrogates: the lexer rejects them in any position)",
    "a user directive or type that reuses a specified/reserved name is outside the content model",
    "rebuilds parse with experimental_directives_on_directive_definitions=True because print_schema emits @deprecated on directive definitions",
]
EXPLANATION = (
    "Theorems: build_schemaToDefs (buildFromDefs (schemaToDefs s) = ok s for WFSchema s), print_fixed_point, rebuilt_wf, "
    "changes_roundtrip, changes_refl, schema_block_rule, schemaToDefs_injective, description_roundtrip, deprecation_roundtrip, "
    "text_lexes, text_roundtrip (parse (printSchemaText s) = document of schemaToDefs s), text_build_roundtrip, "
    "text_roundtrip_defs (the parsed document read back as definitions = schemaToDefs s, and builds to s), "
    "textWF_of_textWFb (the decidable predicate implies TextWF) and text_lexes_b / text_roundtrip_b / text_build_roundtrip_b / "
    "text_roundtrip_defs_b (the text theorems under textWFb = true). "
    "Correspondence: model text vs print_schema (code point for code point), model definitions vs parse(print_schema), model build vs build_schema, WFSchema and textWFb on every valid generated "
    "schema, model changes vs find_schema_changes. Oracles: rebuild succeeds, validates, reprints identically, no changes both "
    "ways, content equal field by field, defaults coerce to the same values, programmatic defaults denote the given values."
)

CORPUS_DIR = fw.VERIF / "corpus" / "C17"


# ----------------------------------------------------------------------------- one case


def features(ir, text):
    strs = []
    for t in ir["types"]:
        strs.append(t["desc"])
    n_def = sum(1 for a in g.all_args_of(ir["types"], ir["directives"]) if a["default"] is not None)
    hard = sum(1 for a in strs if a and any(c in a for c in '"\\\n\r\x0b\x0c\x1c\x1d\x1e\x85  '))
    return {
        "types": len(ir["types"]),
        "directives": len(ir["directives"]),
        "defaults": n_def,
        "hard_descriptions": hard,
        "schema_block": text.startswith(("schema {", '"')) and "schema {" in text.split("\n\n")[0],
    }


def first_diff(a, b, path=""):
    """Path of the first difference between two IR values."""
    if type(a) is not type(b):
        return path or "/"
    if isinstance(a, dict):
        for k in a:
            if k not in b:
                return f"{path}/{k}"
            d = first_diff(a[k], b[k], f"{path}/{k}")
            if d:
                return d
        return None
    if isinstance(a, list):
        if len(a) != len(b):
            return f"{path}/len"
        for i, (x, y) in enumerate(zip(a, b)):
            nm = x.get("name", i) if isinstance(x, dict) else i
            d = first_diff(x, y, f"{path}/{nm}")
            if d:
                return d
        return None
    return None if a == b else (path or "/")


def component_of(path):
    """Stable fingerprint component from a diff path (drops the names)."""
    if not path:
        return "none"
    parts = [p for p in path.split("/") if p]
    keys = [p for p in parts if p in ("desc", "depr", "default", "type", "repeatable", "locations", "interfaces", "members", "values", "fields", "args", "oneof", "spec", "query", "mutation", "subscription", "directives", "types", "len", "name", "kind")]
    return "-".join(keys[-3:]) or "content"


def default_semantics(schema):
    """name path -> coerced default value (Undefined if the literal does not coerce)."""
    import graphql as G
    from graphql.utilities.coerce_input_value import coerce_input_literal
    from graphql.utilities.get_default_value_ast import get_default_value_ast

    out = {}

    def visit(path, a):
        lit = get_default_value_ast(a)
        if lit is not None:
            try:
                out[path] = repr(coerce_input_literal(lit, a.type))
            except Exception as e:  # noqa: BLE001
                out[path] = f"raises {type(e).__name__}"

    for t in schema.type_map.values():
        if G.is_introspection_type(t):
            continue
        if G.is_object_type(t) or G.is_interface_type(t):
            for fn, f in t.fields.items():
                for an, a in f.args.items():
                    visit(f"{t.name}.{fn}({an})", a)
        elif G.is_input_object_type(t):
            for fn, f in t.fields.items():
                visit(f"{t.name}.{fn}", f)
    for d in schema.directives:
        for an, a in d.args.items():
            visit(f"@{d.name}({an})", a)
    return out


def check_schema(rep, schema, case, lines, meta, ir=None, ordered=True, sdl=None):
    """Property oracles on the implementation + driver lines for the correspondence."""
    import graphql as G
    from graphql.utilities import find_schema_changes

    rep.evaluations += 1
    try:
        text = G.print_schema(schema)
    except Exception as e:  # noqa: BLE001
        rep.failures.append(Failure("print_schema-raises", "print_schema raises on a valid schema", case, f"{type(e).__name__}: {e}"[:300], "SDL text", "C17 print"))
        return
    inp = dict(case, printed=text)
    sir = g.schema_ir(schema)
    try:
        rebuilt = g.build(text)
    except Exception as e:  # noqa: BLE001
        rep.failures.append(Failure("rebuild-fails", "building a schema from the printed text fails", inp, f"{type(e).__name__}: {e}"[:400], "a schema", "C17 build(print s) succeeds"))
        return
    errs = G.validate_schema(rebuilt)
    if errs:
        rep.failures.append(Failure("rebuilt-invalid", "the rebuilt schema is not valid", inp, [e.message for e in errs[:3]], [], "C17 rebuilt schema is valid"))
    text2 = G.print_schema(rebuilt)
    if text2 != text:
        rep.failures.append(Failure("reprint-differs", "the rebuilt schema prints to a different text", inp, text2, text, "C17 print_fixed_point"))
    ch = [(c.type.name, c.description) for c in find_schema_changes(schema, rebuilt)]
    ch2 = [(c.type.name, c.description) for c in find_schema_changes(rebuilt, schema)]
    if ch or ch2:
        kinds = sorted({k for k, _ in ch + ch2})
        rep.failures.append(Failure("changes-after-roundtrip-" + "-".join(kinds[:2]), "find_schema_changes reports differences between a schema and its rebuild", inp, (ch + ch2)[:5], [], "C17 changes_roundtrip"))
    rir = g.schema_ir(rebuilt)
    if rir != sir:
        path = first_diff(sir, rir)
        rep.failures.append(Failure("content-differs-" + component_of(path), "the rebuilt schema differs from the original at " + str(path), inp, path, "identical content", "C17 build_schemaToDefs"))
    ds, dr = default_semantics(schema), default_semantics(rebuilt)
    if ds != dr:
        bad = sorted(k for k in set(ds) | set(dr) if ds.get(k) != dr.get(k))[:3]
        rep.failures.append(Failure("default-value-differs", "a default value coerces to a different value after the round trip", inp, {k: [ds.get(k), dr.get(k)] for k in bad}, "same coerced values", "C17 defaults"))
    # generator ground truth (harness + builder): the schema has the content the generator asked for
    if ir is not None:
        want = g.strip_py(ir)
        got = sir
        if not ordered:
            # types=None / a subset: only reachable types are in the type map, in discovery order
            present = {t["name"] for t in got["types"]}
            want = dict(want, types=sorted((t for t in want["types"] if t["name"] in present), key=lambda t: t["name"]))
            got = dict(got, types=sorted(got["types"], key=lambda t: t["name"]))
        if sdl is None:
            # programmatic: literal forms of defaults come from value_to_literal; compare them by coerced value below
            want = _drop_defaults(want)
            got = _drop_defaults(got)
        if want != got:
            path = first_diff(want, got)
            rep.disagreements.append(Disagreement("schema content vs generator", dict(case, at=path), path, "generator IR"))
    # correspondence lines
    sx = g.sx_schema(sir)
    lines.append("text " + sx)
    meta.append(("print_schema.text", inp, g.sx_str(text)))
    lines.append("defs " + sx)
    meta.append(("print_schema.defs", inp, g.sx_doc(g.parse_sdl(text))))
    lines.append("build " + g.sx_doc(g.parse_sdl(text)))
    meta.append(("build_schema(printed)", inp, "ok " + g.sx_schema(rir)))
    if sdl is not None:
        lines.append("build " + g.sx_doc(g.parse_sdl(sdl)))
        meta.append(("build_schema(generated sdl)", dict(case, sdl=sdl), "ok " + sx))
    lines.append("wf " + sx)
    meta.append(("WFSchema(valid schema)", inp, "T"))
    # the decidable hypothesis of the text theorems (textWFb) holds on every valid schema; without
    # experimental_directives_on_directive_definitions exactly when no directive is deprecated
    lines.append("textwf " + sx)
    no_depr_dir = all(d["depr"] is None for d in sir["directives"])
    meta.append(("textWFb(valid schema)", inp, "T " + ("T" if no_depr_dir else "F")))
    rep.stats["textwf_asserted"] = rep.stats.get("textwf_asserted", 0) + 1
    lines.append("roundtrip " + sx)
    meta.append(("model round trip", inp, "T"))
    lines.append(f"changes {sx} {g.sx_schema(rir)}")
    meta.append(("find_schema_changes(s, rebuilt)", inp, "( )"))
    f = features(sir, text)
    for k, v in f.items():
        rep.stats[k] = rep.stats.get(k, 0) + int(v)
    if f["defaults"] and f["hard_descriptions"] and (f["directives"] or f["schema_block"]):
        rep.nontrivial += 1
    return text


def _drop_defaults(ir):
    import copy

    ir = copy.deepcopy(ir)
    for a in g.all_args_of(ir["types"], ir["directives"]):
        a["default"] = a["default"] is not None
    return ir


def run_case(rep, seed, idx, mode, lines, meta):
    import graphql as G

    rng = random.Random(f"c17:{seed}:{idx}:{mode}")
    case = {"case": [seed, idx, mode]}
    try:
        ir = g.gen_ir(rng, sdl_mode=(mode == "sdl"))
    except Exception:  # noqa: BLE001  (generator corner: not a property failure)
        rep.stats["generator_errors"] = rep.stats.get("generator_errors", 0) + 1
        return
    if mode == "sdl":
        sdl = g.ir_to_sdl(ir, rng)
        try:
            schema = g.build(sdl)
        except Exception as e:  # noqa: BLE001
            rep.stats["generator_sdl_rejected"] = rep.stats.get("generator_sdl_rejected", 0) + 1
            rep.notes.append(f"generated SDL rejected ({type(e).__name__}) for case {case['case']}"[:200]) if len(rep.notes) < 3 else None
            return
        ordered = True
    else:
        sdl = None
        schema, ordered = g.ir_to_schema(ir, rng)
    if G.validate_schema(schema):
        rep.stats["invalid_skipped"] = rep.stats.get("invalid_skipped", 0) + 1
        return
    rep.stats[f"mode_{mode}"] = rep.stats.get(f"mode_{mode}", 0) + 1
    text = check_schema(rep, schema, case, lines, meta, ir=ir, ordered=ordered, sdl=sdl)
    if mode == "prog" and text is not None:
        # programmatic defaults: the literal printed for a Python value coerces back to that value
        _check_prog_defaults(rep, ir, schema, case)
    if text is not None and len(rep.samples) < 2:
        rep.samples.append({"case": case["case"], "printed_head": text[:400]})


def _check_prog_defaults(rep, ir, schema, case):
    from graphql.pyutils import Undefined
    from graphql.utilities.coerce_input_value import coerce_input_literal, coerce_input_value
    from graphql.utilities.get_default_value_ast import get_default_value_ast

    def visit(path, a_ir, a):
        if a_ir.get("default") is None or "py" not in a_ir:
            return
        lit = get_default_value_ast(a)
        try:
            want = coerce_input_value(a_ir["py"], a.type)
            got = coerce_input_literal(lit, a.type) if lit is not None else Undefined
        except Exception as e:  # noqa: BLE001
            want, got = "no exception", f"raises {type(e).__name__}"
        if repr(want) != repr(got):
            rep.failures.append(Failure("programmatic-default-literal", "the literal printed for a programmatic default does not denote that value", dict(case, at=path), repr(got), repr(want), "C17 defaults (value_to_literal)"))

    tmap = {t["name"]: t for t in ir["types"]}
    for name, t in tmap.items():
        obj = schema.type_map.get(name)
        if obj is None:
            continue
        if t["kind"] in ("object", "interface"):
            for f in t["fields"]:
                for a in f["args"]:
                    visit(f"{name}.{f['name']}({a['name']})", a, obj.fields[f["name"]].args[a["name"]])
        elif t["kind"] == "input":
            for a in t["fields"]:
                visit(f"{name}.{a['name']}", a, obj.fields[a["name"]])
    for d in ir["directives"]:
        obj = next(x for x in schema.directives if x.name == d["name"])
        for a in d["args"]:
            visit(f"@{d['name']}({a['name']})", a, obj.args[a["name"]])


def run_shared_defaults(rep, lines, meta):
    """Default objects shared between inputs of different types (and between schemas): a GraphQLDefaultInput is a
    plain value holder, so using ONE object for several arguments must be indistinguishable from using equal
    separate objects - whatever a printer, coercer or validator memoises on it.  Every ordered pair of applicable
    types per value; the shared variant goes through the full round-trip oracle and must print like the separate one;
    then the same objects are reused in a second schema with the types swapped (state left behind by the first print)."""
    import itertools

    import graphql as G
    from graphql.type import GraphQLDefaultInput

    def types():
        color = G.GraphQLEnumType("Color", {"RED": "RED", "GREEN": "GREEN"})
        j = G.GraphQLScalarType("J")
        inp_i = G.GraphQLInputObjectType("InI", {"a": G.GraphQLInputField(G.GraphQLInt)})
        inp_f = G.GraphQLInputObjectType("InF", {"a": G.GraphQLInputField(G.GraphQLFloat)})
        return {
            "Color": color, "String": G.GraphQLString, "ID": G.GraphQLID, "J": j, "Int": G.GraphQLInt,
            "Float": G.GraphQLFloat, "Boolean": G.GraphQLBoolean, "[Int]": G.GraphQLList(G.GraphQLInt),
            "[Float]": G.GraphQLList(G.GraphQLFloat), "[ID]": G.GraphQLList(G.GraphQLID),
            "[String!]": G.GraphQLList(G.GraphQLNonNull(G.GraphQLString)), "InI": inp_i, "InF": inp_f,
        }

    table = [
        ("RED", ["Color", "String", "ID", "J", "[String!]"]), ("GREEN", ["String", "Color", "J"]),
        (1, ["Int", "Float", "ID", "J", "[Int]", "[Float]"]), ("1", ["ID", "String", "J"]), (True, ["Boolean", "J"]),
        (1.5, ["Float", "J", "[Float]"]), ([1, 2], ["[Int]", "[Float]", "[ID]", "J"]), ({"a": 1}, ["InI", "InF", "J"]),
        (None, ["String", "Int", "Color", "J"]),
    ]

    def mk(tys, names, defaults):
        args = {f"a{i}": G.GraphQLArgument(tys[n], default=d) for i, (n, d) in enumerate(zip(names, defaults))}
        return G.GraphQLSchema(G.GraphQLObjectType("Query", {"f": G.GraphQLField(G.GraphQLInt, args=args)}), types=[tys[n] for n in ("Color", "J", "InI", "InF")])

    for value, names in table:
        for pair in itertools.permutations(names, 2):
            case = {"shared_default": repr(value), "types": list(pair)}
            tys = types()
            d = GraphQLDefaultInput(value=value)
            shared = mk(tys, pair, [d, d])
            sep = mk(tys, pair, [GraphQLDefaultInput(value=value), GraphQLDefaultInput(value=value)])
            if G.validate_schema(sep):
                continue
            rep.stats["shared_default_cases"] = rep.stats.get("shared_default_cases", 0) + 1
            if G.validate_schema(shared):
                rep.failures.append(Failure("shared-default-object", "a schema is valid with separate default objects but invalid when they are one object", case, [e.message for e in G.validate_schema(shared)][:2], [], "C17 defaults (object sharing)"))
                continue
            want = G.print_schema(sep)
            text = check_schema(rep, shared, case, lines, meta)
            if text is not None and text != want:
                rep.failures.append(Failure("shared-default-object", "sharing one GraphQLDefaultInput between inputs of different types changes the printed schema", dict(case, printed=text), text, want, "C17 defaults (object sharing)"))
            # the same object, now at the other type first, in a fresh schema (after the prints above)
            tys2 = types()
            again = mk(tys2, pair[::-1], [d, d])
            want2 = G.print_schema(mk(types(), pair[::-1], [GraphQLDefaultInput(value=value), GraphQLDefaultInput(value=value)]))
            try:
                got2 = G.print_schema(again)
            except Exception as e:  # noqa: BLE001
                got2 = f"{type(e).__name__}: {e}"[:200]
            rep.evaluations += 1
            if got2 != want2:
                rep.failures.append(Failure("shared-default-object", "a default object used in an earlier schema prints differently in the next one", dict(case, second=True), got2, want2, "C17 defaults (object sharing)"))
            if default_semantics(again) != default_semantics(mk(types(), pair[::-1], [GraphQLDefaultInput(value=value), GraphQLDefaultInput(value=value)])):
                rep.failures.append(Failure("shared-default-object", "a default object used in an earlier schema coerces differently in the next one", dict(case, second=True), None, None, "C17 defaults (object sharing)"))


def run_corpus(rep, lines, meta):
    import graphql as G

    if not CORPUS_DIR.exists():
        return
    for p in sorted(CORPUS_DIR.glob("*.graphql")):
        sdl = p.read_text()
        case = {"corpus": p.name}
        try:
            schema = g.build(sdl)
        except Exception as e:  # noqa: BLE001
            rep.notes.append(f"corpus {p.name}: does not build: {type(e).__name__}")
            continue
        if G.validate_schema(schema):
            rep.notes.append(f"corpus {p.name}: not a valid schema, skipped")
            continue
        rep.stats["corpus"] = rep.stats.get("corpus", 0) + 1
        check_schema(rep, schema, case, lines, meta, sdl=sdl)


def compare(rep, drv, lines, meta):
    if not drv or not lines:
        return
    outs = fw.Driver(drv).run(lines)
    for (comp, inp, want), out in zip(meta, outs):
        rep.evaluations += 1
        if out != want:
            i = next((k for k, (x, y) in enumerate(zip(out, want)) if x != y), min(len(out), len(want)))
            rep.disagreements.append(Disagreement(comp, inp, want[max(0, i - 120) : i + 120], out[max(0, i - 120) : i + 120]))


def _work(args):
    cases, drv, with_corpus = args
    fw.use_repo()
    rep = Report()
    lines, meta = [], []
    if with_corpus:
        run_corpus(rep, lines, meta)
        run_shared_defaults(rep, lines, meta)
    for seed, idx, mode in cases:
        try:
            run_case(rep, seed, idx, mode, lines, meta)
        except Exception as e:  # noqa: BLE001
            import traceback

            rep.failures.append(Failure("harness-or-library-exception", "unexpected exception while checking a case", {"case": [seed, idx, mode]}, traceback.format_exc()[-800:], "no exception", "C17"))
    compare(rep, drv, lines, meta)
    return rep


def explore(ctx) -> Report:
    fw.use_repo()
    n = 240 if ctx.tier == "quick" else 2400
    if ctx.escalate and ctx.tier == "quick":
        n = 600
    n = int(os.environ.get("VERIF_CASES", "0") or 0) or n
    cases = [(ctx.seed, i, "sdl" if i % 2 == 0 else "prog") for i in range(n)]
    chunks = fw.chunked(cases, fw.WORKERS * 2)
    drv = DRIVER if ctx.driver else None
    reps = fw.pmap(_work, [(c, drv, k == 0) for k, c in enumerate(chunks)])
    rep = Report()
    for r in reps:
        rep.merge(r)
    rep.rule = (
        "type-directed random schemas (all six kinds, interface hierarchies, recursive inputs, custom directives over all 21 "
        "locations, default and non-default root names, adversarial descriptions/deprecation reasons, defaults of every input type), "
        "half built from generated SDL, half assembled from GraphQL*Type objects with Python default values; filtered by "
        "validate_schema == []. non-trivial = has defaults and a description containing quotes/backslashes/line or control "
        "characters and (a custom directive or a printed schema block); distinct by seed"
    )
    return rep


def search(ctx, rep) -> Report:
    # explore() already evaluates every property oracle on the implementation for every case;
    # widen the sample when something broke
    fw.use_repo()
    base = 100000
    cases = [(ctx.seed, base + i, "sdl" if i % 2 == 0 else "prog") for i in range(1500 if ctx.tier == "quick" else 6000)]
    chunks = fw.chunked(cases, fw.WORKERS * 2)
    reps = fw.pmap(_work, [(c, None, False) for c in chunks])
    out = Report()
    for r in reps:
        out.merge(r)
    out.disagreements = []
    return out


def replay(ctx, payload) -> Report:
    fw.use_repo()
    inp = payload.get("input") or {}
    rep = Report()
    lines, meta = [], []
    drv = DRIVER if ctx.driver else None
    if isinstance(inp, dict) and "case" in inp:
        seed, idx, mode = inp["case"]
        run_case(rep, seed, idx, mode, lines, meta)
    elif isinstance(inp, dict) and "corpus" in inp:
        run_corpus(rep, lines, meta)
    elif isinstance(inp, dict) and ("sdl" in inp or "printed" in inp):
        import graphql as G

        schema = g.build(inp.get("sdl") or inp["printed"])
        if not G.validate_schema(schema):
            check_schema(rep, schema, {"sdl": inp.get("sdl") or inp["printed"]}, lines, meta)
    compare(rep, drv, lines, meta)
    return rep
