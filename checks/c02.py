"""C02 — execution computes exactly what the specification's algorithm computes."""
from __future__ import annotations

import hashlib
import json
import random
import re
from pathlib import Path

from tools import c02_gen as G
from tools import fw
from tools.fw import Disagreement, Failure, Report

ID = "C02"
PROPS = "Gql.Props.C02"
DRIVER = "drv_c02"
LEVEL = "proof"
LEVEL_TEXT = (
    "Lean theorems about an executable model of the synchronous executor (Gql/Exec/ImplExec.lean: collect_fields "
    "with the visited map, field grouping, execute_fields/execute_field, complete_value and its branches, "
    "handle_field_error + CollectedErrors with the ancestor filter, get_argument_values/coerce_argument with the "
    "memoised defaults, the sub-selection memo keyed on allocation serials) against an independent transcription "
    "of the specification's algorithm (Gql/Exec/SpecExec.lean), for all schemas, documents, variable values and "
    "resolver functions with no size bound; see the theorem list in Gql/Props/C02.lean. The model is tied to the "
    "code by a type-directed differential run (schema x document x variables x conforming/hostile data graph, "
    "sequences of 3-6 requests on the same schema/document objects) comparing data (ordered), ordered error "
    "paths and the resolver call log; the same run evaluates the property on the implementation against the "
    "Lean specification executed through the driver, and history independence directly on the implementation."
)
LEVEL_NOTE = (
    "Trusted: Lean kernel; the hand-written model (tied by correspondence on generated inputs, not by translation); "
    "the harness. Parametric (not proved here): leaf output coercion and input coercion of literals (Ops; C15/C16), "
    "instantiated by Gql/Exec/Values.lean for the run (including CoerceVariableValues on the raw variable values). "
    "Awaitables, @defer/@stream, subscriptions, middleware, is_type_of, custom scalars, "
    "__schema/__type are outside the model."
)
TECHNIQUE = "refinement proof (impl model = spec) + differential correspondence + spec-as-oracle on the implementation"
TRUSTED = [
    "hand-written Lean model Gql/Exec/ImplExec.lean of executor.py / collect_fields.py / values.py (synchronous path), "
    "tied to the code by the differential run below (data, ordered error paths, resolver call log)",
    "Gql/Exec/Values.lean (concrete leaf serialisation / literal coercion on the harness' value domain) - a parameter "
    "of every theorem, compared with the code on every generated case",
    "variable coercion: the raw variable values go to the driver, which coerces them with Concrete.coerceVariableValues "
    "(Gql/Exec/Values.lean, part of the value layer) - the executors and theorems start from coerced values",
]
ASSUMPTIONS = [
    "resolvers are synchronous pure functions of (source node, field name, coerced arguments)",
    "no awaitables, @defer/@stream, subscriptions, middleware, is_type_of, custom scalars, __schema/__type",
    "where a propagating field error cancels siblings, the specification's 'may be cancelled' is read as 'are cancelled' "
    "(depth-first serial order)",
    "@skip/@include `if` is coerced like any Boolean! argument; a failure is a field error of the enclosing field "
    "(the case the specification defers to run time)",
    "float values are whole numbers of halves below 2^31; numeric strings are of the forms -?[0-9]+ and -?[0-9]+.[05]",
]
EXPLANATION = (
    "Theorems (all full): Impl.executeRequest = Spec.executeRequest (data, errors in order, call log) for all inputs; "
    "nulls: data = null only with an error, every error accounts for a nulled position (longest present prefix of its "
    "path is null); call-log arguments = CoerceArgumentValues and every position is invoked exactly once; "
    "termination of CollectFields on cyclic fragments; history independence of request sequences. "
    "Correspondence: model vs execute_sync; oracle: Spec.executeRequest vs execute_sync on validated documents; "
    "repeat / fresh-schema determinism on the implementation."
)

CORPUS_DIR = fw.VERIF / "corpus" / "C02"

# ----------------------------------------------------------------------------- case generation


def make_case(seed_text, profile="c02"):
    """A stored case: schema SDL, a pool of documents, a request sequence (all JSON-able)."""
    from graphql import build_schema

    rng = random.Random(seed_text)
    for _ in range(20):
        info = G.gen_schema(rng, profile)
        sdl = G.schema_sdl(info)
        try:
            from graphql import assert_valid_schema

            schema = build_schema(sdl)
            assert_valid_schema(schema)
            break
        except Exception:  # noqa: BLE001  (generator produced an invalid schema: try again)
            continue
    else:
        raise fw.InfraError("schema generator failed 20 times")
    docs = []
    for _ in range(1 if rng.random() < 0.6 else 2):
        invalid = rng.random() < 0.18
        d = G.gen_document(rng, info, invalid=invalid, profile=profile)
        docs.append({"text": G.doc_text(d), "ops": [{"name": o["name"], "kind": o["kind"], "vars": o["vars"]} for o in d["ops"]], "mutations": d["mutations"]})
    reqs = []
    n = rng.randint(3, 6)
    for i in range(n):
        if reqs and rng.random() < 0.12:
            reqs.append(json.loads(json.dumps(rng.choice(reqs))))
            continue
        di = rng.randrange(len(docs))
        ops = docs[di]["ops"]
        op = rng.choice(ops)
        if len(ops) == 1:
            op_name = op["name"] if (op["name"] and rng.random() < 0.5) else None
        else:
            op_name = op["name"] if rng.random() < 0.9 else rng.choice([None, "Nope"])
        mode = "conforming" if rng.random() < (0.6 if profile == "c13" else 0.35) else "hostile"
        root_t = info["mutation"] if op["kind"] == "mutation" else info["query"]
        p_h = rng.choice([0.03, 0.08, 0.15])
        if mode == "hostile" and rng.random() < 0.25:
            mode, p_h = "raisy", rng.choice([0.15, 0.3])
        if rng.random() < 0.04:
            mode = "hostile"
            data = rng.choice([G.NULL, G.leaf_node(5), {"k": "list", "items": []}, {"k": "raise", "tag": 1}])
        else:
            data = G.gen_data(rng, info, G.T(root_t, True), mode, 0, p_h, max_depth=rng.choice([3, 4, 5]))
        raw = G.gen_variables(rng, info, op, "c13" if profile == "c13" else ("valid" if rng.random() < 0.8 else "mixed"))
        reqs.append({"doc": di, "op": op_name, "vars": raw, "data": data, "mode": mode})
    return {"sdl": sdl, "docs": docs, "requests": reqs, "info": info, "seed": seed_text}


# ----------------------------------------------------------------------------- running the implementation


class _Boom(RuntimeError):
    pass


def exception_pool():
    """The raising-resolver zoo: ONE exception instance per tag, shared by every position that
    raises it and by all requests of a history (a pre-built module-level error constant is a common
    way to signal "forbidden").  tag % 4: plain exception / GraphQLError without path / GraphQLError
    subclass with extensions / GraphQLError that already carries a path (kept as it is)."""
    from graphql import GraphQLError

    class _ExtError(GraphQLError):
        pass

    pool = {}
    for tag in range(0, 16):
        kind = tag % 4
        if kind == 0:
            pool[tag] = _Boom(f"boom{tag}")
        elif kind == 1:
            pool[tag] = GraphQLError(f"forbidden{tag}")
        elif kind == 2:
            pool[tag] = _ExtError(f"ext{tag}", extensions={"code": tag})
        else:
            pool[tag] = GraphQLError(f"elsewhere{tag}", path=["ext", tag])
    return pool


_POOL = None


def materialise(node, index=None):
    """data graph node -> the Python value handed to the executor"""
    k = node["k"]
    if k == "null":
        return None
    if k == "leaf":
        v = node["v"]
        return v / 2 if node["t"] == "float" else v
    if k == "raise":
        return _POOL[node["tag"] % 16]
    if k == "list":
        return [materialise(x, index) for x in node["items"]]
    tn = node["tn"]
    d = {
        "__obj__": True,
        "tn": 7 if isinstance(tn, dict) else tn,
        "entries": [(name, None if guard is None else G.pyval_unjson(guard), materialise(child, index)) for name, guard, child in node["entries"]],
    }
    if index is not None:
        index[id(d)] = node
    return d


def _is_obj(v):
    return type(v) is dict and v.get("__obj__") is True


def make_resolvers(log, sources=None):
    def field_resolver(source, info, **args):
        log.append((info.path.as_list(), info.parent_type.name, info.field_name, args))
        if sources is not None:
            sources.append(id(source))
        if not _is_obj(source):
            return None
        name = info.field_name
        for n, guard, child in source["entries"]:
            if n == name and (guard is None or guard == args):
                if isinstance(child, Exception):
                    raise child
                return child
        return None

    def type_resolver(value, _info, _abstract_type):
        return value["tn"] if _is_obj(value) else None

    return field_resolver, type_resolver


def sx_json(v):
    """response data -> the driver's J syntax"""
    if v is None:
        return "null"
    if isinstance(v, bool):
        return f"(b {1 if v else 0})"
    if isinstance(v, int):
        return f"(i {v})"
    if isinstance(v, float):
        h = v * 2
        if h != int(h):
            return f"(float-outside-domain {v!r})"
        return f"(fl {int(h)})"
    if isinstance(v, str):
        return G.sx_str(v)
    if isinstance(v, list):
        return "(l" + "".join(" " + sx_json(x) for x in v) + ")"
    if isinstance(v, dict):
        return "(o" + "".join(f" ({k} {sx_json(x)})" for k, x in v.items()) + ")"
    return f"(unexpected {type(v).__name__})"


def sx_path(p):
    if p is None:
        return "(nopath)"
    return "(p" + "".join(f" i:{s}" if isinstance(s, int) else f" k:{s}" for s in p) + ")"


def sx_call(c):
    path, parent, field, args = c
    try:
        a = "".join(f" ({k} {G.pyval_sx(v, canonical=True)})" for k, v in sorted(args.items()))
    except ValueError as e:
        a = f" (unrenderable {e})"
    return f"(call {sx_path(path)} {parent} {field} (args{a}))"


def run_impl(schema, document, req, sources=None):
    """-> (data text, errs text, log text, result, n_calls)"""
    from graphql import execute_sync

    log = []
    fr, tr = make_resolvers(log, sources)
    root = materialise(req["data"])
    try:
        res = execute_sync(schema, document, root, variable_values=req["vars"], operation_name=req["op"], field_resolver=fr, type_resolver=tr)
    except Exception as e:  # noqa: BLE001
        return None, None, None, e, len(log)
    data = "(data " + sx_json(res.data) + ")"
    errs = "(errs" + "".join(" " + sx_path(e.path) for e in res.errors or []) + ")"
    lg = "(log" + "".join(" " + sx_call(c) for c in log) + ")"
    return data, errs, lg, res, len(log)


_KINDS = re.compile(r" \(kinds[^)]*\)")


def split_resp(text):
    """driver response -> (data, errs, log, kinds) texts"""
    if text.startswith("crash"):
        return text, "", "", ""
    m = re.match(r"^(\(data .*\)) (\(errs.*?\)) (\(kinds[^)]*\)) (\(log.*\))$", text)
    if not m:
        raise fw.InfraError(f"unparsable driver response: {text[:200]}")
    return m.group(1), m.group(2), m.group(4), m.group(3)


def select_operation(document, op_name):
    from graphql.language import OperationDefinitionNode

    ops = [d for d in document.definitions if isinstance(d, OperationDefinitionNode)]
    if op_name is None:
        return ops[0] if len(ops) == 1 else None
    found = None
    for d in ops:
        if d.name and d.name.value == op_name:
            found = d
    return found


def add_guards(rng, case, schema, documents):
    """make some data argument-sensitive: guarded entries in front of the generic ones"""
    info = case["info"]
    for req in case["requests"]:
        if rng.random() < 0.5:
            continue
        index = {}
        sources = []
        log = []
        from graphql import execute_sync

        fr, tr = make_resolvers(log, sources)
        root = materialise(req["data"], index)
        try:
            execute_sync(schema, documents[req["doc"]], root, variable_values=req["vars"], operation_name=req["op"], field_resolver=fr, type_resolver=tr)
        except Exception:  # noqa: BLE001
            pass
        added = 0
        for (path, parent, field, args), sid in zip(log, sources):
            node = index.get(sid)
            if node is None or not args or added >= 3 or rng.random() < 0.5:
                continue
            fdef = next((f for f in G.fields_of(info, parent) if f["name"] == field), None)
            if fdef is None:
                continue
            try:
                guard = [[k, G.pyval_json(v)] for k, v in args.items()]
                G.pyval_sx(args)
            except ValueError:
                continue
            child = G.gen_data(rng, info, fdef["type"], req["mode"], 3, 0.1, max_depth=5)
            pos = next((i for i, e in enumerate(node["entries"]) if e[0] == field), len(node["entries"]))
            node["entries"].insert(pos, [field, {"__d__": guard}, child])
            added += 1
        if added:
            req["guards"] = added


def req_line_part(doc_sx, req, coerced):
    # RAW variable values: the driver coerces them itself (Concrete.coerceVariableValues), so that
    # variable coercion of the implementation is checked against the specification as well
    vars_sx = "(rawvars" + "".join(f" ({k} {G.pyval_sx(v)})" for k, v in req["vars"].items()) + ")"
    return f"(req {doc_sx} {req['op'] or '-'} {vars_sx} {G.data_sx(_guards_plain(req['data']))})"


def _guards_plain(node):
    """guards are stored in JSON form; data_sx wants (name, python value) pairs"""
    k = node["k"]
    if k == "list":
        return {"k": "list", "items": [_guards_plain(x) for x in node["items"]]}
    if k != "obj":
        return node
    es = []
    for name, guard, child in node["entries"]:
        g = None if guard is None else list(G.pyval_unjson(guard).items())
        es.append([name, g, _guards_plain(child)])
    return {"k": "obj", "tn": node["tn"], "entries": es}


# ----------------------------------------------------------------------------- one case


def depth_of(v):
    if isinstance(v, dict):
        return 1 + max([depth_of(x) for x in v.values()] + [0])
    if isinstance(v, list):
        return max([depth_of(x) for x in v] + [0])
    return 0


def list_depth(v, cur=0):
    if isinstance(v, list):
        return max([list_depth(x, cur + 1) for x in v] + [cur + 1])
    if isinstance(v, dict):
        return max([list_depth(x, 0) for x in v.values()] + [0])
    return cur


def path_present(data, path):
    cur = data
    for s in path:
        if isinstance(cur, dict) and s in cur:
            cur = cur[s]
        elif isinstance(cur, list) and isinstance(s, int) and s < len(cur):
            cur = cur[s]
        else:
            return False
    return True


def prepare_case(case, with_guards=True):
    """Build schema / documents, generate guards, compute per request everything needed for the driver line.
    Returns (schema, documents, valid flags, per-request dicts, line or None)"""
    from graphql import build_schema, parse, validate
    from graphql.execution.values import get_variable_values

    global _POOL
    _POOL = exception_pool()  # shared by all positions and all requests of this case
    schema = build_schema(case["sdl"])
    documents = [parse(d["text"]) for d in case["docs"]]
    valid = []
    for d in documents:
        try:
            valid.append(validate(schema, d) == [])
        except Exception:  # noqa: BLE001  validate() itself raising is not C02's subject (reported as a C01/C12 finding)
            valid.append(None)
    if with_guards and "info" in case and not case.get("guards_done"):
        add_guards(random.Random("guards:" + str(case.get("seed"))), case, schema, documents)
        case["guards_done"] = True
    schema_sx = G.schema_sx_from_sdl(case["sdl"])
    docs_sx = [G.ast_doc_sx(d) for d in documents]
    parts = []
    meta = []
    for i, req in enumerate(case["requests"]):
        document = documents[req["doc"]]
        op = select_operation(document, req["op"])
        coerced = {}
        req_error = False
        if op is not None:
            cv = get_variable_values(schema, op.variable_definitions or (), req["vars"])
            if isinstance(cv, list):
                req_error = True
            else:
                coerced = cv.coerced
        m = {"i": i, "req_error": req_error, "valid": valid[req["doc"]], "sent": False}
        if True:
            try:
                parts.append(req_line_part(docs_sx[req["doc"]], req, coerced))
                m["sent"] = True
            except ValueError as e:  # value outside the harness domain (e.g. a float that is not a number of halves)
                m["skipped"] = str(e)
        meta.append(m)
    line = f"exec (case {schema_sx} " + " ".join(parts) + ")" if parts else None
    return schema, documents, valid, meta, line


def stored(case, i=None):
    c = {k: v for k, v in case.items() if k not in ("info", "guards_done")}
    c = json.loads(json.dumps(c, default=repr))
    if i is not None:
        c["request_index"] = i
    return c


def check_cases(cases, rep, driver, seen):
    """prepare all cases, one driver call for the whole batch, then compare"""
    prepared = [prepare_case(c) for c in cases]
    lines = [p[4] for p in prepared if p[4] is not None]
    outs = iter(driver.run(lines)) if (driver is not None and lines) else None
    for case, p in zip(cases, prepared):
        out = next(outs) if (outs is not None and p[4] is not None) else None
        check_case(case, rep, p, out, seen)


def check_case(case, rep, prepared, out, seen):
    from graphql import build_schema, parse

    schema, documents, valid, meta, line = prepared
    global _POOL
    _POOL = exception_pool()  # fresh instances for this case, shared by its positions and requests
    st = rep.stats

    def bump(k, n=1):
        st[k] = st.get(k, 0) + n

    bump("cases")
    outs = None
    if out is not None:
        if out.startswith("bad-"):
            raise fw.InfraError(f"driver rejected a case: {out}: {line[:300]}")
        secs = out.split(" # ")
        if len(secs) != 3:
            raise fw.InfraError(f"driver output has {len(secs)} sections")
        outs = [s.split(" ; ") for s in secs]
    k = 0
    for m in meta:
        i = m["i"]
        req = case["requests"][i]
        document = documents[req["doc"]]
        bump("requests")
        bump("valid_docs" if m["valid"] else ("validate_raises" if m["valid"] is None else "invalid_docs"))
        bump("conforming_data" if req["mode"] == "conforming" else "hostile_data")
        if req.get("guards"):
            bump("with_guards")
        d1, e1, l1, res, ncalls = run_impl(schema, document, req)
        inp = lambda: stored(case, i)  # noqa: E731
        if d1 is None:
            rep.failures.append(Failure("execute-raises", "execute_sync raised instead of returning a response", inp(), repr(res), "an ExecutionResult", "C02 (response always produced)"))
            if m["sent"]:
                k += 1
            continue
        rep.evaluations += 1
        # --- history on the implementation: immediate repeat, and a fresh schema + document
        d2, e2, l2, _, _ = run_impl(schema, document, req)
        if (d1, e1, l1) != (d2, e2, l2):
            rep.failures.append(Failure("exec-repeat-differs", "executing the same request again gives a different response", inp(), [d2, e2, l2], [d1, e1, l1], "C02-4 history_independent (repeat)"))
        fresh_schema = build_schema(case["sdl"])
        fresh_doc = parse(case["docs"][req["doc"]]["text"])
        d3, e3, l3, _, _ = run_impl(fresh_schema, fresh_doc, req)
        if (d1, e1, l1) != (d3, e3, l3):
            rep.failures.append(Failure("exec-history-dependent", "the response after earlier requests on the same schema/document objects differs from the response on fresh objects", inp(), [d1, e1, l1], [d3, e3, l3], "C02-4 history_independent"))
        # --- statistics
        errs = res.errors or []
        bump("mean_calls_sum", ncalls)
        bump(f"errors_{min(len(errs), 3)}{'+' if len(errs) >= 3 else ''}")
        text = case["docs"][req["doc"]]["text"]
        dd = depth_of(res.data) if res.data is not None else 0
        nontrivial = bool(errs) or dd >= 3 or "... on" in text
        if errs:
            bump("with_errors")
        if res.data is None:
            bump("data_null")
        if any(e.path is not None and (res.data is None or not path_present(res.data, e.path)) for e in errs):
            bump("with_propagation")
        if dd >= 3:
            bump("depth_ge3")
        if list_depth(res.data) >= 2:
            bump("with_list_depth2")
        if "@skip" in text or "@include" in text:
            bump("with_skip_include")
        if "..." in text.replace("... on", ""):
            bump("with_fragment_spread")
        if "... on" in text or "__typename" in text:
            bump("with_abstract_or_typename")
        if re.search(r"\b\w+: \w+", text.split("{", 1)[1] if "{" in text else ""):
            bump("with_alias")
        if req["vars"]:
            bump("with_variables")
        if "mutation" in text and req["op"] is not None:
            bump("maybe_mutation_ops")
        if m["req_error"]:
            bump("request_error_cases")
        if not m["sent"]:
            bump("skipped_outside_domain")
            continue
        if outs is None:
            k += 1
            continue
        h = hashlib.sha1((line or "").encode() + str(i).encode()).hexdigest()
        if nontrivial and h not in seen:
            seen.add(h)
            rep.nontrivial += 1
        model_var_error = outs[2][k] == "varerror"
        if model_var_error or m["req_error"]:
            k += 1
            if model_var_error != m["req_error"] and m["valid"]:
                what = ("variable coercion rejects values the specification's CoerceVariableValues accepts"
                        if m["req_error"] else
                        "variable coercion accepts values the specification's CoerceVariableValues rejects")
                rep.disagreements.append(Disagreement("get_variable_values vs Concrete.coerceVariableValues", inp(), m["req_error"], model_var_error))
                rep.failures.append(Failure("variable-coercion-vs-spec", what, inp(), e1, "varerror" if model_var_error else "coercible", "C02-3 CoerceVariableValues"))
            else:
                bump("request_errors_agreed")
            continue
        md, me, ml, _mk = split_resp(outs[0][k])
        fd, fe, fl, _fk = split_resp(outs[1][k])
        sd, se, sl, sk = split_resp(outs[2][k])
        k += 1
        if md.startswith("crash"):
            bump("crash_outputs")
        if not m["valid"]:
            # outside the property (it quantifies over validated documents): executed for the
            # crash / determinism checks above, not compared
            bump("invalid_docs_not_compared")
            continue
        if (d1, e1, l1) != (md, me, ml):
            rep.disagreements.append(Disagreement("execute_sync vs Impl.runAll", inp(), [d1, e1, l1], [md, me, ml, _mk]))
        if (md, me, ml) != (fd, fe, fl):
            rep.disagreements.append(Disagreement("model history (threaded vs fresh state)", inp(), [fd, fe, fl], [md, me, ml]))
        if True:
            if d1 != sd:
                rep.failures.append(Failure("exec-data-vs-spec", "response data differs from the specification's algorithm", inp(), d1, sd, "C02-1 impl_eq_spec via Spec.executeRequest"))
            elif e1 != se:
                rep.failures.append(Failure("exec-errors-vs-spec", "ordered error paths differ from the specification's algorithm", inp(), e1, se + " " + sk, "C02-1/2 impl_eq_spec, null_exactly_where_spec via Spec.executeRequest"))
            elif l1 != sl:
                rep.failures.append(Failure("exec-args-vs-spec", "resolver invocations / coerced arguments differ from CoerceArgumentValues", inp(), l1, sl, "C02-3 args_as_coerced via Spec.executeRequest"))
        if len(rep.samples) < 3 and errs and m["valid"] and len(text) < 700:
            rep.samples.append({"document": text, "variables": req["vars"], "operation": req["op"], "response": d1, "errors": e1, "calls": ncalls})


def _work(args):
    seeds, base_seed, drv, stored_cases = args
    fw.use_repo()
    rep = Report()
    driver = fw.Driver(drv) if drv else None
    seen = set()
    cases = list(stored_cases) + [make_case(f"c02:{base_seed}:{s}") for s in seeds]
    for i in range(0, len(cases), 40):
        check_cases(cases[i : i + 40], rep, driver, seen)
    return rep


def load_corpus():
    out = []
    if CORPUS_DIR.is_dir():
        for p in sorted(CORPUS_DIR.glob("*.json")):
            c = json.loads(p.read_text())
            out.append(c.get("input", c))
    return out


def _explore(ctx, n, offset=0):
    fw.use_repo()
    drv = DRIVER if ctx.driver else None
    seeds = list(range(offset, offset + n))
    chunks = fw.chunked(seeds, fw.WORKERS * 3)
    corpus = load_corpus()
    jobs = [(c, ctx.seed, drv, corpus if i == 0 else []) for i, c in enumerate(chunks)]
    reps = fw.pmap(_work, jobs)
    rep = Report()
    for r in reps:
        rep.merge(r)
    rep.stats["corpus_cases"] = len(corpus)
    if rep.stats.get("requests"):
        rep.stats["mean_calls_per_request"] = round(rep.stats.pop("mean_calls_sum", 0) / rep.stats["requests"], 2)
    rep.rule = (
        "type-directed random cases (schema <= 8 types with interface, union, enum, input objects, list/non-null "
        "nesting <= 3; 1-2 documents generated against the schema, ~18% deliberately invalid mutants; sequences of "
        "3-6 requests with raw variables and a conforming or hostile data graph); non-trivial = a request whose "
        "response has >= 1 error, or depth >= 3, or whose document has a type condition; distinct by hash of the "
        "serialised request"
    )
    if not ctx.driver:
        rep.notes.append("model driver unavailable: only the implementation-side history checks ran")
    return rep


def explore(ctx) -> Report:
    n = 600 if ctx.tier == "quick" else 12000
    if ctx.escalate and ctx.tier == "quick":
        n = 1500
    return _explore(ctx, n)


def search(ctx, rep) -> Report:
    if ctx.driver is None:
        return Report(notes=["model driver unavailable: the property oracle needs the Lean spec; only history checks possible"])
    return _explore(ctx, 4000 if ctx.tier == "quick" else 20000, offset=10_000_000)


def replay(ctx, payload) -> Report:
    fw.use_repo()
    case = payload["input"]
    rep = Report()
    check_cases([case], rep, fw.Driver(DRIVER) if ctx.driver else None, set())
    return rep
