"""C18 — introspection describes the schema truthfully and can rebuild it."""
from __future__ import annotations

import ast as pyast
import itertools
import json
import time
from pathlib import Path

from tools import c18_gen as G
from tools import fw
from tools.fw import Disagreement, Failure, Report

ID = "C18"
PROPS = "Gql.Props.C18"
DRIVER = "drv_c18"
LEVEL = "proof"
LEVEL_TEXT = (
    "Lean theorems over all schemas (unbounded) and all option sets: the standard query's result under any option "
    "set equals `restrict` of the full-options result (attributes dropped, deprecated input values/directives "
    "removed); `__type(name:)` equals the entry of `__schema.types`; building a client schema from the full result of "
    "a well-formed schema returns exactly that schema (hence prints identically, has no differences and introspects "
    "to the same result under every option set) — also with default values as TEXT (client_roundtrip_text: every "
    "`defaultValue` printed by the print_ast model and re-parsed by the parse_const_value model, the print/parse law "
    "proved from C08's roundtrip_value for schemas whose default literals are well-formed constant literals); "
    "build_client_schema never crashes on the result of the standard query "
    "for ANY schema value and ANY option set (only its own TypeError/GraphQLError); every result conforms to the "
    "introspection types (Spec.Conforms against the T1 table of declared fields regenerated from type/introspection.py: "
    "declared fields only, Non-Null never null, lists where declared, kind/locations from the enums). The model (introspect / restrict / "
    "buildClient) is tied to introspection.py, get_introspection_query.py and build_client_schema.py by a "
    "correspondence run over generated valid schemas x option sets; validation + execution of the query text, "
    "conformance to the introspection types, the restrict relation (Lean `restrict` applied to the implementation's "
    "own full result), single-type lookups, the client round trip (print_schema, find_schema_changes, "
    "re-introspection) and ad-hoc introspection selections are evaluated directly on the implementation."
)
LEVEL_NOTE = (
    "Trusted: Lean kernel; hand-written models Gql/Types/{IntroSchema,Json,Introspection,ClientSchema}.lean (tied by "
    "correspondence, not by translation); in client_roundtrip print/parse of constant values are parameters with the "
    "law parse(print v) = v as a hypothesis; client_roundtrip_text instantiates them with the printer / parser models "
    "of C08/C01 (Gql/Types/ClientText.lean) and proves the law (C08 roundtrip_value) under DefaultsWf — ast_from_value / "
    "value_from_ast between a Python default value and its literal stay outside the model; the executor is not modelled for the "
    "meta-schema (that the query validates and executes without errors is observed on the implementation); harness."
)
TECHNIQUE = "Lean 4 proof about a hand-written model + differential correspondence + property oracles on the implementation"
TRUSTED = [
    "hand-written Lean models Gql/Types/Introspection.lean (resolvers of type/introspection.py + selection of "
    "get_introspection_query.py) and Gql/Types/ClientSchema.lean (build_client_schema.py); tied to the code by the "
    "correspondence run (model JSON = implementation JSON, model client schema = implementation client schema)",
    "print_ast / parse_const_value of default values are parameters (printV, parseV) of the Lean theorems; the law "
    "parseV (printV v) = ok v is a hypothesis of client_roundtrip; client_roundtrip_text discharges it: printV := printer "
    "model (Gql.Syntax.printAst, generated widths or any with object >= 4), parseV := parser model at the CONST VALUE "
    "entry, law = C08 roundtrip_value, for schemas with DefaultsWf (default literals = trees of Val.wf true values; "
    "what parse_const_value returns on surrogate-free text: parsed_default_wf). The `dv` correspondence stream runs every "
    "defaultValue string of the implementation through these two models (same text printed, parses back)",
    "execution of the query text through the executor over the meta-schema is not modelled: `validate == []` and "
    "`errors is None` are observed on the implementation for every schema x option set explored",
    "T1: option names/defaults and type_depth are re-extracted from get_introspection_query.py on every run "
    "(Gql/Generated/IntrospectionOptions.lean); Props.C18.options_cover_signature fails to build when they change",
    "T1: the declared shape of introspection_types (object fields with nullability/list-ness, enum value names, the "
    "types of the __schema/__type meta fields) is re-extracted from type/introspection.py with `ast` on every run "
    "(Gql/Generated/IntrospectionTypes.lean); introspect_conforms is re-proved against it",
]
ASSUMPTIONS = [
    "type references are wrapped at most type_depth (= 9) times: a deeper reference is cut off by the standard query "
    "and build_client_schema rejects it by design ('Decorated type deeper than introspection query') — part of WFSchema",
    "schemas are valid (validate_schema == []) and their default values printable: the deprecated `default_value=` "
    "keyword (not validated by validate_schema, printed by ast_from_value) is exercised for built-in leaf types only",
    "key order inside JSON objects is not compared (dict equality); list order is",
]
EXPLANATION = (
    "Theorems: introspect_restrict(_all), type_lookup, client_roundtrip, client_roundtrip_text / reintrospect_text / "
    "default_text_roundtrip / printDefault_ok / parsed_default_wf (defaults as text, C08 composed), client_indistinguishable, reintrospect (all "
    "option sets), buildClient_no_crash_on_introspect (any schema value, any option set), introspect_conforms / "
    "type_lookup_conforms (against the regenerated table of introspection_types). Correspondence: introspection_from_schema(s, **o) vs "
    "introspect, build_client_schema vs buildClient. Oracles on the implementation: validate/execute, restrict "
    "relation via Lean restrict, __type lookups, client round trip, conformance, ad-hoc selections vs projection."
)

CORPUS_DIR = fw.VERIF / "corpus" / "C18"

# ----------------------------------------------------------------------------- T1


def read_options(repo):
    """(names, defaults, type_depth) parsed from get_introspection_query's signature (no import)."""
    src = (Path(repo) / "src/graphql/utilities/get_introspection_query.py").read_text()
    tree = pyast.parse(src)
    fn = next(n for n in tree.body if isinstance(n, pyast.FunctionDef) and n.name == "get_introspection_query")
    args = fn.args.args
    defaults = fn.args.defaults
    pad = [None] * (len(args) - len(defaults)) + list(defaults)
    names, defs, depth = [], [], None
    for a, d in zip(args, pad):
        if isinstance(d, pyast.Constant) and isinstance(d.value, bool):
            names.append(a.arg)
            defs.append(d.value)
        elif isinstance(d, pyast.Constant) and isinstance(d.value, int) and a.arg == "type_depth":
            depth = d.value
        else:
            raise ValueError(f"get_introspection_query: parameter {a.arg} is neither a bool option nor type_depth")
    if depth is None:
        raise ValueError("get_introspection_query: no type_depth parameter")
    return names, defs, depth


KEY_CTOR = {
    "__schema": "schema", "description": "description", "queryType": "queryType", "mutationType": "mutationType",
    "subscriptionType": "subscriptionType", "types": "types", "directives": "directives", "name": "name", "kind": "kind",
    "isRepeatable": "isRepeatable", "isDeprecated": "isDeprecated", "deprecationReason": "deprecationReason",
    "locations": "locations", "args": "args", "specifiedByURL": "specifiedByURL", "isOneOf": "isOneOf", "fields": "fields",
    "inputFields": "inputFields", "interfaces": "interfaces", "enumValues": "enumValues", "possibleTypes": "possibleTypes",
    "type": "type", "defaultValue": "defaultValue", "ofType": "ofType",
}


def read_introspection_types(repo):
    """The declared shape of the meta-schema, parsed from type/introspection.py with `ast` (no import):
    ({object type name: [(field, type expr)]}, {enum name: [value names]}, {meta field: type expr}).
    A type expr is ("named", n) | ("list", t) | ("nonNull", t)."""
    src = (Path(repo) / "src/graphql/type/introspection.py").read_text()
    tree = pyast.parse(src)
    scalars = {"GraphQLString": "String", "GraphQLBoolean": "Boolean", "GraphQLInt": "Int", "GraphQLFloat": "Float", "GraphQLID": "ID"}
    var_type = {}  # python variable -> GraphQL type name
    field_classes = {}  # class name -> dict node
    objects_src, enums = {}, {}
    metas_src = {}

    def kw(call, name):
        for k in call.keywords:
            if k.arg == name:
                return k.value
        return None

    for node in tree.body:
        if isinstance(node, pyast.ClassDef) and any(isinstance(b, pyast.Name) and b.id == "GraphQLFieldMap" for b in node.bases):
            new = next(n for n in node.body if isinstance(n, pyast.FunctionDef) and n.name == "__new__")
            ret = next(n for n in pyast.walk(new) if isinstance(n, pyast.Return))
            if not isinstance(ret.value, pyast.Dict):
                raise ValueError(f"{node.name}.__new__ does not return a dict literal")
            field_classes[node.name] = ret.value
        target = value = None
        if isinstance(node, pyast.AnnAssign) and isinstance(node.target, pyast.Name):
            target, value = node.target.id, node.value
        elif isinstance(node, pyast.Assign) and len(node.targets) == 1 and isinstance(node.targets[0], pyast.Name):
            target, value = node.targets[0].id, node.value
        if target is None or not isinstance(value, pyast.Call) or not isinstance(value.func, pyast.Name):
            continue
        fn = value.func.id
        if fn == "GraphQLObjectType":
            name = kw(value, "name").value
            var_type[target] = name
            objects_src[name] = kw(value, "fields").id
        elif fn == "GraphQLEnumType":
            name = kw(value, "name").value
            var_type[target] = name
            vals = kw(value, "values")
            enums[name] = [k.value for k in vals.keys]
        elif fn == "GraphQLField" and target.endswith("MetaFieldDef"):
            metas_src[target] = value.args[0]

    def ty(e):
        if isinstance(e, pyast.Call) and isinstance(e.func, pyast.Name) and e.func.id in ("GraphQLNonNull", "GraphQLList"):
            return ("nonNull" if e.func.id == "GraphQLNonNull" else "list", ty(e.args[0]))
        if isinstance(e, pyast.Name):
            if e.id in scalars:
                return ("named", scalars[e.id])
            if e.id in var_type:
                return ("named", var_type[e.id])
        raise ValueError(f"introspection.py: unrecognised type expression {pyast.dump(e)[:80]}")

    objects = {}
    for name, cls in objects_src.items():
        d = field_classes[cls]
        fields = []
        for k, v in zip(d.keys, d.values):
            if not (isinstance(v, pyast.Call) and isinstance(v.func, pyast.Name) and v.func.id == "GraphQLField"):
                raise ValueError(f"{cls}: field {k.value} is not a GraphQLField(...) call")
            fields.append((k.value, ty(v.args[0])))
        objects[name] = fields
    metas = {k: ty(v) for k, v in metas_src.items()}
    return objects, enums, metas


def _lean_ty(t):
    if t[0] == "named":
        return f'.named {json.dumps(t[1])}'
    return f".{t[0]} ({_lean_ty(t[1])})"


def _lean_key(k):
    if k in KEY_CTOR:
        return "." + KEY_CTOR[k]
    return ".other [" + ", ".join(str(ord(c)) for c in k) + "]"


def _cps(s):
    return "[" + ", ".join(str(ord(c)) for c in s) + "]"


def extract(repo, lean):
    changed = []
    names, defs, depth = read_options(repo)
    body = (
        "/- T1: regenerated from src/graphql/utilities/get_introspection_query.py by checks/c18.py (do not edit). -/\n"
        "namespace Gql.Generated\n\n"
        "def introspectionOptionNames : List String :=\n  ["
        + ", ".join(json.dumps(n) for n in names)
        + "]\n\n"
        "def introspectionOptionDefaults : List Bool :=\n  ["
        + ", ".join("true" if d else "false" for d in defs)
        + "]\n\n"
        f"def introspectionTypeDepth : Nat := {depth}\n\n"
        "end Gql.Generated\n"
    )
    objects, enums, metas = read_introspection_types(repo)
    obj_rows = ",\n   ".join(
        "(" + json.dumps(n) + ", [" + ", ".join(f"({_lean_key(k)}, {_lean_ty(t)})" for k, t in fs) + "])"
        for n, fs in objects.items()
    )
    enum_rows = ",\n   ".join(
        "(" + json.dumps(n) + ",\n     [" + ", ".join(_cps(v) for v in vs) + "])" for n, vs in enums.items()
    )
    body2 = (
        "import Gql.Types.IntroConform\n"
        "/- T1: the declared shape of `introspection_types`, regenerated from src/graphql/type/introspection.py by\n"
        "   checks/c18.py (do not edit): per object type its fields with declared types, per enum its value names\n"
        "   (as code points), and the declared types of the `__schema` / `__type` meta fields. -/\n"
        "namespace Gql.Generated\nopen Gql.Types\n\n"
        "def introspectionTable : ITable where\n"
        "  objects :=\n  [" + obj_rows + "]\n"
        "  enums :=\n  [" + enum_rows + "]\n\n"
        f"def schemaMetaFieldType : ITy := {_lean_ty(metas['SchemaMetaFieldDef'])}\n\n"
        f"def typeMetaFieldType : ITy := {_lean_ty(metas['TypeMetaFieldDef'])}\n\n"
        "end Gql.Generated\n"
    )
    for fname, text in (("IntrospectionOptions.lean", body), ("IntrospectionTypes.lean", body2)):
        path = Path(lean) / "Gql" / "Generated" / fname
        path.parent.mkdir(parents=True, exist_ok=True)
        if not (path.exists() and path.read_text() == text):
            path.write_text(text)
            changed.append(str(path.relative_to(lean)))
    return changed


# ----------------------------------------------------------------------------- implementation side


def bits_of(o, names):
    return "".join("1" if o[n] else "0" for n in names)


def opts_of(bits, names):
    return {n: b == "1" for n, b in zip(names, bits)}


def run_query(schema, text, variables=None):
    """validate + execute the way a server would; returns (validation errors, execution errors, data)."""
    from graphql import execute_sync, parse, validate

    doc = parse(text)
    verrs = validate(schema, doc)
    if verrs:
        return [e.message for e in verrs], None, None, doc
    res = execute_sync(schema, doc, variable_values=variables)
    return [], ([e.message for e in res.errors] if res.errors else None), res.data, doc


def conform(value, gtype, selections, frags, path, out):
    """Structural check of a response value against the declared (introspection) type."""
    from graphql.type import is_enum_type, is_list_type, is_non_null_type, is_object_type, is_scalar_type

    if is_non_null_type(gtype):
        if value is None:
            out.append(f"{path}: null for non-null {gtype}")
            return
        gtype = gtype.of_type
    if value is None:
        return
    if is_list_type(gtype):
        if not isinstance(value, list):
            out.append(f"{path}: {type(value).__name__} where a list is declared")
            return
        for i, v in enumerate(value):
            conform(v, gtype.of_type, selections, frags, f"{path}[{i}]", out)
        return
    if is_enum_type(gtype):
        if not isinstance(value, str) or value not in gtype.values:
            out.append(f"{path}: {value!r} is not a value of enum {gtype.name}")
        return
    if is_scalar_type(gtype):
        want = {"String": str, "Boolean": bool, "ID": str, "Int": int, "Float": (int, float)}[gtype.name]
        if not isinstance(value, want) or (want is not bool and isinstance(value, bool)):
            out.append(f"{path}: {value!r} is not a {gtype.name}")
        return
    if not is_object_type(gtype):
        out.append(f"{path}: unexpected declared type {gtype}")
        return
    if not isinstance(value, dict):
        out.append(f"{path}: {type(value).__name__} where object {gtype.name} is declared")
        return
    fields = {}
    _collect(selections, gtype.name, frags, fields)
    if list(value.keys()) != list(fields.keys()):
        out.append(f"{path}: keys {list(value.keys())} but selection asks for {list(fields.keys())}")
        return
    for key, node in fields.items():
        name = node.name.value
        if name == "__typename":
            if value[key] != gtype.name:
                out.append(f"{path}.{key}: __typename {value[key]!r}")
            continue
        fdef = gtype.fields.get(name)
        if fdef is None:
            out.append(f"{path}.{key}: no field {name} on {gtype.name}")
            continue
        conform(value[key], fdef.type, node.selection_set.selections if node.selection_set else (), frags, f"{path}.{key}", out)


def _collect(selections, type_name, frags, fields):
    from graphql.language import FieldNode, FragmentSpreadNode, InlineFragmentNode

    for sel in selections:
        if isinstance(sel, FieldNode):
            key = sel.alias.value if sel.alias else sel.name.value
            fields.setdefault(key, sel)
        elif isinstance(sel, FragmentSpreadNode):
            f = frags[sel.name.value]
            if f.type_condition.name.value == type_name:
                _collect(f.selection_set.selections, type_name, frags, fields)
        elif isinstance(sel, InlineFragmentNode):
            if sel.type_condition is None or sel.type_condition.name.value == type_name:
                _collect(sel.selection_set.selections, type_name, frags, fields)


def conform_result(schema, doc, data):
    from graphql.language import FragmentDefinitionNode, OperationDefinitionNode
    from graphql.type import GraphQLNonNull, introspection_types

    frags = {d.name.value: d for d in doc.definitions if isinstance(d, FragmentDefinitionNode)}
    op = next(d for d in doc.definitions if isinstance(d, OperationDefinitionNode))
    out = []
    if not isinstance(data, dict):
        return ["data is not an object"]
    roots = {"__schema": GraphQLNonNull(introspection_types["__Schema"]), "__type": introspection_types["__Type"]}
    fields = {}
    _collect(op.selection_set.selections, schema.query_type.name, frags, fields)
    if list(data.keys()) != list(fields.keys()):
        return [f"root keys {list(data.keys())} but selection asks for {list(fields.keys())}"]
    for key, node in fields.items():
        name = node.name.value
        if name not in roots:
            out.append(f"{key}: not an introspection root field")
            continue
        conform(data[key], roots[name], node.selection_set.selections, frags, key, out)
    return out


# ---- ad-hoc selections against the introspection types and their projection from the full result

LEAVES = {
    "__Schema": ["description"],
    "__Type": ["kind", "name", "description", "specifiedByURL", "isOneOf"],
    "__Field": ["name", "description", "isDeprecated", "deprecationReason"],
    "__InputValue": ["name", "description", "defaultValue", "isDeprecated", "deprecationReason"],
    "__EnumValue": ["name", "description", "isDeprecated", "deprecationReason"],
    "__Directive": ["name", "description", "isRepeatable", "locations", "isDeprecated", "deprecationReason"],
}
# composite fields: name -> (result type, takes includeDeprecated)
COMPOSITES = {
    "__Schema": {"types": ("__Type", False), "queryType": ("__Type", False), "mutationType": ("__Type", False),
                 "subscriptionType": ("__Type", False), "directives": ("__Directive", True)},
    "__Type": {"fields": ("__Field", True), "interfaces": ("__Type", False), "possibleTypes": ("__Type", False),
               "enumValues": ("__EnumValue", True), "inputFields": ("__InputValue", True), "ofType": ("__Type", False)},
    "__Field": {"args": ("__InputValue", True), "type": ("__Type", False)},
    "__InputValue": {"type": ("__Type", False)},
    "__EnumValue": {},
    "__Directive": {"args": ("__InputValue", True)},
}


class AdHoc:
    """Random selection on an introspection type: a tree of ("field", key, name, incl, sub) /
    ("inline", cond, sub) / ("spread", fragment name) items; response keys are unique per object scope."""

    def __init__(self, rng):
        self.rng = rng
        self.frags = {}
        self.n = 0

    LISTS = ("fields", "interfaces", "possibleTypes", "inputFields")  # counted by MaxIntrospectionDepthRule

    def selection(self, tname, depth, used=None, ld=0):
        """`ld` = number of enclosing list fields the MaxIntrospectionDepthRule counts (must stay < 3)."""
        r = self.rng
        used = set() if used is None else used
        items = []
        k = r.randint(1, 4)
        for _ in range(k):
            x = r.random()
            if x < 0.12 and depth > 0:
                sub = self.selection(tname, depth - 1, used, ld)
                items.append(("inline", r.choice([tname, None]), sub))
                continue
            if x < 0.22 and depth > 0:
                self.n += 1
                fname = f"F{self.n}"
                sub = self.selection(tname, depth - 1, used, ld)
                self.frags[fname] = (tname, sub)
                items.append(("spread", fname))
                continue
            comps = COMPOSITES[tname]
            if x < 0.6 and depth > 0 and comps:
                name = r.choice(sorted(c for c in comps if not (c in self.LISTS and ld >= 2)))
                rt, incl = comps[name]
                inc = r.choice([None, True, False]) if incl else None
                sub = self.selection(rt, depth - 1, None, ld + (1 if name in self.LISTS else 0))
            else:
                name = r.choice(LEAVES[tname] + ["__typename"])
                inc, sub = None, None
            key = name
            if key in used or r.random() < 0.2:
                self.n += 1
                key = f"k{self.n}"
            used.add(key)
            items.append(("field", key, name, inc, sub))
        return items

    def text(self, items, ind="  "):
        out = []
        for it in items:
            if it[0] == "inline":
                out.append(ind + "..." + (f" on {it[1]}" if it[1] else "") + " {\n" + self.text(it[2], ind + "  ") + ind + "}\n")
            elif it[0] == "spread":
                out.append(ind + "..." + it[1] + "\n")
            else:
                _, key, name, inc, sub = it
                s = ind + (f"{key}: " if key != name else "") + name
                if inc is not None:
                    s += "(includeDeprecated: " + ("true" if inc else "false") + ")"
                if sub is not None:
                    s += " {\n" + self.text(sub, ind + "  ") + ind + "}"
                out.append(s + "\n")
        return "".join(out)

    def fragments_text(self):
        return "".join(f"fragment {n} on {t} {{\n{self.text(sub)}}}\n" for n, (t, sub) in self.frags.items())


class Projection:
    """Evaluates an ad-hoc selection on the *data* of the full-options result (no resolver is consulted)."""

    def __init__(self, full, frags):
        self.schema = full["__schema"]
        self.types = {t["name"]: t for t in self.schema["types"]}
        self.frags = frags

    def type_view(self, ref):
        if ref is None:
            return None
        if ref["kind"] in ("LIST", "NON_NULL"):
            return ("wrap", ref)
        return ("named", self.types[ref["name"]])

    def eval(self, tname, obj, items, out=None):
        out = {} if out is None else out
        for it in items:
            if it[0] == "inline":
                self.eval(tname, obj, it[2], out)
            elif it[0] == "spread":
                self.eval(tname, obj, self.frags[it[1]][1], out)
            else:
                _, key, name, inc, sub = it
                out[key] = tname if name == "__typename" else self.field(tname, obj, name, inc, sub)
        return out

    def many(self, tname, objs, sub):
        return None if objs is None else [self.eval(tname, o, sub) for o in objs]

    def one(self, tname, obj, sub):
        return None if obj is None else self.eval(tname, obj, sub)

    @staticmethod
    def keep(items, inc):
        if items is None:
            return None
        return list(items) if inc else [i for i in items if not i["isDeprecated"]]

    def field(self, tname, obj, name, inc, sub):
        if tname == "__Schema":
            if name == "description":
                return obj["description"]
            if name == "types":
                return self.many("__Type", [("named", t) for t in obj["types"]], sub)
            if name in ("queryType", "mutationType", "subscriptionType"):
                return self.one("__Type", self.type_view(obj[name]), sub)
            if name == "directives":
                return self.many("__Directive", self.keep(obj["directives"], inc), sub)
        if tname == "__Type":
            tag, t = obj
            if tag == "wrap":
                if name == "kind":
                    return t["kind"]
                if name == "ofType":
                    return self.one("__Type", self.type_view(t["ofType"]), sub)
                return None
            if name in LEAVES["__Type"]:
                return t[name]
            if name == "ofType":
                return None
            if name == "fields":
                return self.many("__Field", self.keep(t["fields"], inc), sub)
            if name == "enumValues":
                return self.many("__EnumValue", self.keep(t["enumValues"], inc), sub)
            if name == "inputFields":
                return self.many("__InputValue", self.keep(t["inputFields"], inc), sub)
            if name in ("interfaces", "possibleTypes"):
                return None if t[name] is None else self.many("__Type", [self.type_view(r) for r in t[name]], sub)
        if name == "args":
            return self.many("__InputValue", self.keep(obj["args"], inc), sub)
        if name == "type":
            return self.one("__Type", self.type_view(obj["type"]), sub)
        return obj[name]


# ----------------------------------------------------------------------------- one schema


def full_type_fragments(full_query_text):
    i = full_query_text.index("fragment FullType")
    return full_query_text[i:]


def _check_schema(case, names, depth, option_bits, drv, n_adhoc, seed):
    """All oracles + correspondence for one schema (one driver call). Returns a Report."""
    return _drive([_check_schema_gen(case, names, depth, option_bits, drv is not None, n_adhoc, seed)], drv)


def _drive(gens, drv, deadline=None):
    """Run the per-schema generators with ONE driver process for all their model-side lines."""
    import time

    rep = Report()
    waiting, lines = [], []
    for gi, g in enumerate(gens):
        # the first two schemas of every chunk always run (a check that explores nothing is worthless)
        if gi >= 2 and deadline is not None and time.time() > deadline:
            # degrade gracefully on an overloaded machine instead of running into the runner's hard limit
            rep.stats["schemas_skipped_time_budget"] = rep.stats.get("schemas_skipped_time_budget", 0) + 1
            g.close()
            continue
        try:
            ls = next(g)
        except StopIteration as stop:
            rep.merge(stop.value)
            continue
        waiting.append((g, len(lines), len(ls)))
        lines += ls
    outs = drv.run(lines) if (drv is not None and lines) else []
    for g, start, n in waiting:
        try:
            g.send(outs[start:start + n])
        except StopIteration as stop:
            rep.merge(stop.value)
    return rep


def _check_schema_gen(case, names, depth, option_bits, have_drv, n_adhoc, seed):
    import random

    from graphql import build_client_schema, build_schema, get_introspection_query, introspection_from_schema, print_schema, validate_schema
    from graphql.utilities import find_schema_changes

    rep = Report()
    spec, mode = case["spec"], case["mode"]
    ident = {"spec": spec, "mode": mode}
    try:
        if "sdl" in spec:
            schema = build_schema(spec["sdl"], experimental_directives_on_directive_definitions=True)
        else:
            schema = G.build(spec, mode)
        errs = validate_schema(schema)
    except Exception as e:  # noqa: BLE001  (an invalid spec: generator's problem, not the property's)
        rep.stats["rejected_build"] = 1
        rep.notes.append(f"generator produced an unbuildable spec: {type(e).__name__}: {str(e)[:100]}")
        return rep
    if errs:
        rep.stats["rejected_invalid"] = 1
        return rep
    rep.stats["schemas"] = 1
    rep.stats["mode_" + mode] = 1
    beyond = bool(case.get("beyond_depth"))
    full_bits = "1" * len(names)
    all_bits = [full_bits] + [b for b in option_bits if b != full_bits]

    # --- the standard query under each option set: validates, executes, conforms
    results = {}
    for bits in all_bits:
        o = opts_of(bits, names)
        inp = {**ident, "options": o}
        try:
            text = get_introspection_query(**o)
            verrs, xerrs, data, doc = run_query(schema, text)
        except Exception as e:  # noqa: BLE001
            rep.failures.append(Failure("standard-query-raises", "the standard introspection query raises", inp, f"{type(e).__name__}: {e}"[:300], "a result", "C18 validates/executes"))
            continue
        rep.evaluations += 1
        if verrs:
            rep.failures.append(Failure("standard-query-invalid", "the standard introspection query does not validate against a valid schema", inp, verrs[:3], [], "C18 validates"))
            continue
        if xerrs or data is None:
            rep.failures.append(Failure("standard-query-exec-error", "the standard introspection query executes with errors", inp, (xerrs or ["no data"])[:3], None, "C18 executes without errors"))
            continue
        bad = conform_result(schema, doc, data)
        if bad:
            rep.failures.append(Failure("nonconforming-result", "introspection result does not conform to the introspection types", inp, bad[:5], [], "C18 conforms"))
        results[bits] = data
        # the public entry point with the same options (keywords) must be that very result: this is the function
        # the property names; it hands the options over to get_introspection_query itself
        try:
            via = introspection_from_schema(schema, **o)
        except Exception as e:  # noqa: BLE001
            rep.failures.append(Failure("introspection_from_schema-raises", "introspection_from_schema raises on a valid schema", inp, f"{type(e).__name__}: {e}"[:300], "a result", "C18"))
            continue
        rep.evaluations += 1
        if via != data:
            rep.failures.append(Failure("introspection_from_schema-options-differ", "introspection_from_schema(s, **options) differs from executing get_introspection_query(**options)", inp, _first_diff(via, data), "the same result", "C18 introspect_restrict"))
    full = results.get(full_bits)
    if full is None:
        return rep
    try:
        if introspection_from_schema(schema) != full:
            rep.failures.append(Failure("introspection_from_schema-differs", "introspection_from_schema differs from executing get_introspection_query with all options", ident, None, None, "C18"))
    except Exception as e:  # noqa: BLE001
        rep.failures.append(Failure("introspection_from_schema-raises", "introspection_from_schema raises on a valid schema", ident, f"{type(e).__name__}: {e}"[:300], "a result", "C18"))

    type_names = list(schema.type_map)
    # names that are *not* types but close to one (case variants, prefixes, extensions): must look up to null
    near = []
    for n in type_names:
        for v in (n.lower(), n.upper(), n.capitalize(), n.swapcase(), n + "_", n[:-1], "_" + n):
            if v and v not in schema.type_map and v not in near:
                near.append(v)
    nrng = random.Random(f"c18-near:{seed}:{case.get('idx', 0)}")
    # well-known names that this schema happens not to contain (standard scalars it does not use, directive names,
    # conventional root names): a lookup must be answered from *this* schema's type map, i.e. null
    wellknown = [
        n for n in ("Int", "Float", "ID", "String", "Boolean", "__Schema", "__Type", "__TypeKind", "__Field", "__InputValue",
                    "__EnumValue", "__Directive", "__DirectiveLocation", "skip", "include", "deprecated", "specifiedBy", "oneOf",
                    "defer", "stream", "Query", "Mutation", "Subscription")
        if n not in schema.type_map
    ]
    rep.stats["lookup_absent_standard_scalars"] = sum(1 for n in wellknown if n in ("Int", "Float", "ID"))
    lookup_names = type_names + ["NoSuchType"] + wellknown + nrng.sample(near, min(8, len(near)))
    nontrivial_features = sum([
        any(t["kind"] == "INTERFACE" and t["interfaces"] for t in full["__schema"]["types"]),
        any(t["kind"] == "UNION" for t in full["__schema"]["types"]),
        any(t["isOneOf"] for t in full["__schema"]["types"]),
        any(iv["isDeprecated"] for t in full["__schema"]["types"] for iv in (t["inputFields"] or [])),
        any(a["isDeprecated"] for t in full["__schema"]["types"] for f in (t["fields"] or []) for a in f["args"]),
        any(d["isDeprecated"] for d in full["__schema"]["directives"]),
        any(d["isRepeatable"] for d in full["__schema"]["directives"]),
        any(t["specifiedByURL"] is not None for t in full["__schema"]["types"]),
        any(a["defaultValue"] is not None for t in full["__schema"]["types"] for f in (t["fields"] or []) for a in f["args"]),
    ])
    rep.nontrivial += 1 if nontrivial_features >= 3 else 0
    rep.stats["features_total"] = nontrivial_features
    rep.stats["types_total"] = len(type_names)

    # --- model side (one driver call per schema)
    lines, tags = [], []
    sub_bits = [b for b in all_bits if b in results]
    default_texts = list(dict.fromkeys(
        iv["defaultValue"]
        for ivs in (
            [f["args"] for t in full["__schema"]["types"] for f in (t["fields"] or [])]
            + [t["inputFields"] or [] for t in full["__schema"]["types"]]
            + [d["args"] for d in full["__schema"]["directives"]]
        )
        for iv in ivs
        if iv["defaultValue"] is not None
    ))
    if have_drv:
        wj = G.w_json(full)
        ws = G.w_schema(schema)
        lines.append(f"restrict {len(sub_bits)} " + " ".join(sub_bits) + " " + wj)
        tags.append("restrict")
        lines.append(f"intro {depth} {len(sub_bits)} " + " ".join(sub_bits) + " " + ws)
        tags.append("intro")
        lines.append(f"lookup {depth} {full_bits} {len(lookup_names)} " + " ".join(G.w_str(n) for n in lookup_names) + " " + ws)
        tags.append("lookup")
        lines.append(f"client {G.w_client_env()} {wj}")
        tags.append("client")
        lines.append(f"wf {depth} {G.w_client_env()} {ws}")
        tags.append("wf")
        # every `defaultValue` string of the implementation through the text-level model (printer model o
        # parse_const_value model, the functions of client_roundtrip_text): the model must print the same text
        if default_texts:
            lines.append(f"dv {len(default_texts)} " + " ".join(G.w_str(t) for t in default_texts))
            tags.append("dv")
        # the client builder on results of reduced option sets (correspondence only)
        for b in sub_bits[1:4]:
            lines.append(f"client {G.w_client_env()} {G.w_json(results[b])}")
            tags.append("client:" + b)
    # malformed introspection results (one key deleted / nulled / emptied): build_client_schema vs model,
    # outcome = schema or exception class (correspondence of the error paths; no property oracle)
    malformed = []
    if have_drv and not beyond:
        mrng = random.Random(f"c18-malformed:{seed}:{case.get('idx', 0)}")
        ps = [p for p in _paths(full) if not any(isinstance(x, str) and x.startswith("__") and x != "__schema" for x in p)]
        for _ in range(max(3, n_adhoc // 3)):
            p = mrng.choice(ps)
            how = mrng.choice(["del", "null", "empty"])
            if how == "del" and isinstance(p[-1], int):
                how = "null"
            if p[-1] == "defaultValue" and how == "empty":
                how = "null"  # parsing of the literal is a parameter of the model (C08), not modelled here
            m = _mutate(full, p, how)
            malformed.append((p, how, m))
            lines.append(f"client {G.w_client_env()} {G.w_json(m)}")
            tags.append(f"malformed:{len(malformed) - 1}")
    outs = yield lines
    model = dict(zip(tags, outs))

    if "restrict" in model:
        parts = model["restrict"].split(" | ")
        for bits, part in zip(sub_bits, parts):
            rep.evaluations += 1
            if part == G.w_json(results[bits]):  # fast path: identical wire text
                continue
            want = G.r_json(part)
            if want != results[bits]:
                rep.failures.append(Failure(
                    "restrict-mismatch", "result under an option set differs from the full-options result minus exactly the switched-off attributes / deprecated input values",
                    {**ident, "options": opts_of(bits, names)}, _first_diff(results[bits], want), "restrict(options, full result)", "C18 introspect_restrict (Lean restrict on the implementation's full result)"))
    if "intro" in model:
        parts = model["intro"].split(" | ")
        for bits, part in zip(sub_bits, parts):
            rep.evaluations += 1
            if part == G.w_json(results[bits]):
                continue
            m = G.r_json(part)
            if m != results[bits]:
                rep.disagreements.append(Disagreement("introspect", {**ident, "options": opts_of(bits, names)}, _first_diff(results[bits], m), "model"))

    if "dv" in model:
        for text, part in zip(default_texts, model["dv"].split(" | ")):
            rep.evaluations += 1
            rep.stats["default_texts"] = rep.stats.get("default_texts", 0) + 1
            w = part.split(" ")
            got = None
            if w[0] == "ok" and w[1] == "S":
                k = int(w[2])
                got = ("".join(chr(int(c)) for c in w[3:3 + k]), w[3 + k])
            if got != (text, "T"):
                rep.disagreements.append(Disagreement(
                    "default-text", {**ident, "defaultValue": text}, (text, "T"),
                    got if got is not None else part[:200]))

    if "wf" in model and not beyond:
        rep.evaluations += 1
        if model["wf"] != "true":
            # a valid schema outside the hypothesis of client_roundtrip: the theorem would not speak about it
            rep.disagreements.append(Disagreement("WFSchema covers validate_schema == []", ident, "validate_schema == []", "wfSchema = " + model["wf"]))

    # --- possibleTypes of an interface = the object types that list it in `interfaces` (spec: __Type.possibleTypes)
    for t in full["__schema"]["types"]:
        if t["kind"] == "INTERFACE":
            rep.evaluations += 1
            want = [o["name"] for o in full["__schema"]["types"] if o["kind"] == "OBJECT" and any(i["name"] == t["name"] for i in o["interfaces"])]
            got = [p["name"] for p in t["possibleTypes"] or []]
            if sorted(got) != sorted(want) or any(p["kind"] != "OBJECT" for p in t["possibleTypes"] or []):
                rep.failures.append(Failure("possibleTypes-inconsistent", "possibleTypes of an interface is not the set of object types whose `interfaces` list it", {**ident, "type": t["name"]}, got, want, "C18 truthful description (possibleTypes)"))
        if t["kind"] == "UNION":
            want = [m.name for m in schema.type_map[t["name"]].types]
            got = [p["name"] for p in t["possibleTypes"] or []]
            if got != want:
                rep.failures.append(Failure("possibleTypes-inconsistent", "possibleTypes of a union is not its member list", {**ident, "type": t["name"]}, got, want, "C18 truthful description (possibleTypes)"))

    # --- __type(name:) agrees with the entry of __schema.types
    frag_text = full_type_fragments(get_introspection_query(**opts_of(full_bits, names)))
    q = "query Lookup {\n" + "".join(f'  t{i}: __type(name: {json.dumps(n)}) {{ ...FullType }}\n' for i, n in enumerate(lookup_names)) + "}\n" + frag_text
    by_name = {t["name"]: t for t in full["__schema"]["types"]}
    try:
        verrs, xerrs, data, _ = run_query(schema, q)
    except Exception as e:  # noqa: BLE001
        verrs, xerrs, data = [f"{type(e).__name__}: {e}"], None, None
    if verrs or xerrs or data is None:
        rep.failures.append(Failure("type-lookup-error", "__type(name:) lookups do not validate/execute", ident, (verrs or xerrs or ["no data"])[:3], None, "C18 type_lookup"))
    else:
        mparts = [G.r_json(p) for p in model["lookup"].split(" | ")] if "lookup" in model else None
        for i, n in enumerate(lookup_names):
            rep.evaluations += 1
            if data[f"t{i}"] != by_name.get(n):
                rep.failures.append(Failure("type-lookup-mismatch", "__type(name:) differs from the entry of __schema.types", {**ident, "type": n}, _first_diff(data[f"t{i}"], by_name.get(n)), "the entry of __schema.types", "C18 type_lookup"))
            if mparts is not None and mparts[i] != data[f"t{i}"]:
                rep.disagreements.append(Disagreement("type_lookup", {**ident, "type": n}, _first_diff(data[f"t{i}"], mparts[i]), "model"))
        # a second variant through a variable
        n = type_names[seed % len(type_names)]
        verrs, xerrs, d2, _ = run_query(schema, "query L($n: String!) { __type(name: $n) { ...FullType } }\n" + frag_text, {"n": n})
        if verrs or xerrs or d2 is None or d2["__type"] != by_name.get(n):
            rep.failures.append(Failure("type-lookup-mismatch", "__type(name: $n) differs from the entry of __schema.types", {**ident, "type": n}, verrs or xerrs, None, "C18 type_lookup"))

    # --- client schema round trip
    client = None
    try:
        client = build_client_schema(full)
        client_out = "ok"
    except Exception as e:  # noqa: BLE001
        client_out = type(e).__name__
        if not beyond:
            rep.failures.append(Failure("client-build-raises", "build_client_schema raises on the full introspection result of a valid schema", ident, f"{type(e).__name__}: {e}"[:300], "a schema", "C18 client_roundtrip"))
    if client is not None and not beyond:
        rep.evaluations += 1
        try:
            p0, p1 = print_schema(schema), print_schema(client)
            if p0 != p1:
                rep.failures.append(Failure("client-print-differs", "client schema prints differently from the original", ident, _text_diff(p1, p0), "identical SDL", "C18 client_roundtrip"))
            ch = [str(c.description) for c in find_schema_changes(schema, client)] + [str(c.description) for c in find_schema_changes(client, schema)]
            if ch:
                rep.failures.append(Failure("client-schema-changes", "find_schema_changes reports differences between original and client schema", ident, ch[:5], [], "C18 client_roundtrip"))
            again = introspection_from_schema(client)
            if again != full:
                rep.failures.append(Failure("client-reintrospect-differs", "the client schema introspects to a different result", ident, _first_diff(again, full), "the same result", "C18 reintrospect"))
            if validate_schema(client):
                rep.failures.append(Failure("client-schema-invalid", "the client schema of a valid schema is invalid", ident, [e.message for e in validate_schema(client)][:3], [], "C18 client_roundtrip"))
        except Exception as e:  # noqa: BLE001
            rep.failures.append(Failure("client-roundtrip-raises", "printing / diffing / re-introspecting the client schema raises", ident, f"{type(e).__name__}: {e}"[:300], None, "C18 client_roundtrip"))
    if "client" in model:
        rep.evaluations += 1
        impl = "ok " + G.w_schema(client) if client is not None else client_out
        if _client_canon(model["client"]) != impl:
            rep.disagreements.append(Disagreement("build_client_schema", ident, _wire_diff(impl, _client_canon(model["client"])), "model"))
        if client is not None and not beyond and model["client"] != "ok " + G.w_schema(schema):
            # the model's statement client_roundtrip, evaluated on the model for this schema
            rep.disagreements.append(Disagreement("client_roundtrip(model)", ident, "model client schema differs from the original schema", _wire_diff("ok " + G.w_schema(schema), model["client"])))
    for tag, out in model.items():
        if not tag.startswith("client:"):
            continue
        bits = tag.split(":")[1]
        rep.evaluations += 1
        try:
            c2 = build_client_schema(results[bits])
            impl = "ok " + G.w_schema(c2)
        except Exception as e:  # noqa: BLE001
            impl = type(e).__name__
        if _client_canon(out) != impl:
            rep.disagreements.append(Disagreement("build_client_schema(reduced options)", {**ident, "options": opts_of(bits, names)}, _wire_diff(impl, _client_canon(out)), "model"))

    for k, (p, how, m) in enumerate(malformed):
        out = model.get(f"malformed:{k}")
        if out is None:
            continue
        rep.evaluations += 1
        rep.stats["malformed"] = rep.stats.get("malformed", 0) + 1
        try:
            impl = "ok " + G.w_schema(build_client_schema(m))
        except Exception as e:  # noqa: BLE001
            impl = type(e).__name__
        if _client_canon(out) != impl:
            rep.disagreements.append(Disagreement("build_client_schema(malformed input)", {**ident, "path": list(p), "how": how}, impl[:200], _client_canon(out)[:200]))

    # --- ad-hoc selections against the introspection types
    rng = random.Random(f"c18-adhoc:{seed}:{case.get('idx', 0)}")
    for k in range(n_adhoc):
        ah = AdHoc(rng)
        if rng.random() < 0.5:
            root, tname, head = "__schema", "__Schema", "__schema"
            target = None
        else:
            target = rng.choice(type_names + ["NoSuchType"])
            root, tname, head = "__type", "__Type", f"__type(name: {json.dumps(target)})"
        sel = ah.selection(tname, rng.randint(1, 4))
        text = "query AdHoc {\n  r: " + head + " {\n" + ah.text(sel, "    ") + "  }\n}\n" + ah.fragments_text()
        inp = {**ident, "query": text}
        try:
            verrs, xerrs, data, _ = run_query(schema, text)
        except Exception as e:  # noqa: BLE001
            rep.failures.append(Failure("adhoc-raises", "an ad-hoc introspection selection raises", inp, f"{type(e).__name__}: {e}"[:300], None, "C18 ad-hoc"))
            continue
        rep.evaluations += 1
        rep.stats["adhoc"] = rep.stats.get("adhoc", 0) + 1
        if verrs or xerrs:
            rep.failures.append(Failure("adhoc-error", "an ad-hoc introspection selection does not validate / executes with errors", inp, (verrs or xerrs)[:3], [], "C18 ad-hoc"))
            continue
        pr = Projection(full, ah.frags)
        if root == "__schema":
            want = pr.eval("__Schema", full["__schema"], sel)
        else:
            t = pr.types.get(target)
            want = None if t is None else pr.eval("__Type", ("named", t), sel)
        if data != {"r": want}:
            rep.failures.append(Failure("adhoc-projection-mismatch", "an ad-hoc introspection selection disagrees with the projection of the full result", inp, _first_diff(data["r"], want), "projection of the full result", "C18 ad-hoc"))
    if len(rep.samples) < 1:
        rep.samples.append({"mode": mode, "types": type_names, "directives": [d["name"] for d in full["__schema"]["directives"]], "options_checked": len(sub_bits), "features": nontrivial_features})
    return rep


def _paths(j, p=()):
    if isinstance(j, dict):
        for k, v in j.items():
            yield p + (k,)
            yield from _paths(v, p + (k,))
    elif isinstance(j, list):
        for i, v in enumerate(j):
            yield p + (i,)
            yield from _paths(v, p + (i,))


def _mutate(j, path, how):
    import copy

    j = copy.deepcopy(j)
    cur = j
    for k in path[:-1]:
        cur = cur[k]
    k = path[-1]
    if how == "del":
        del cur[k]
    elif how == "null":
        cur[k] = None
    else:
        cur[k] = [] if isinstance(cur[k], list) else ({} if isinstance(cur[k], dict) else "")
    return j


def _client_canon(out):
    """Model outcome -> what is compared with the implementation: `ok <schema>` or the exception class."""
    if out.startswith("ok "):
        return out
    if out.startswith("err"):
        w = out.split()
        return w[1] if len(w) > 1 else "TypeError"
    if out.startswith("crash "):
        return out.split()[1]
    return out


def _first_diff(a, b, path="$"):
    """Smallest differing sub-value of two JSON values (for readable replay files)."""
    if type(a) is not type(b):
        return {"at": path, "impl": _short(a), "other": _short(b)}
    if isinstance(a, dict):
        if set(a) != set(b):
            return {"at": path, "impl_keys": sorted(a), "other_keys": sorted(b)}
        for k in a:
            if a[k] != b[k]:
                return _first_diff(a[k], b[k], f"{path}.{k}")
        return None
    if isinstance(a, list):
        if len(a) != len(b):
            return {"at": path, "impl_len": len(a), "other_len": len(b), "impl_names": [_nm(x) for x in a][:12], "other_names": [_nm(x) for x in b][:12]}
        for i, (x, y) in enumerate(zip(a, b)):
            if x != y:
                return _first_diff(x, y, f"{path}[{i}]")
        return None
    return None if a == b else {"at": path, "impl": _short(a), "other": _short(b)}


def _nm(x):
    return x.get("name") if isinstance(x, dict) else _short(x)


def _short(x):
    s = json.dumps(x, default=repr)
    return s if len(s) < 200 else s[:200] + "..."


def _text_diff(a, b):
    al, bl = a.split("\n"), b.split("\n")
    for i, (x, y) in enumerate(zip(al, bl)):
        if x != y:
            return {"line": i + 1, "client": x[:200], "original": y[:200]}
    return {"line": min(len(al), len(bl)) + 1, "client_lines": len(al), "original_lines": len(bl)}


def _wire_diff(a, b):
    aw, bw = a.split(), b.split()
    for i, (x, y) in enumerate(zip(aw, bw)):
        if x != y:
            return {"word": i, "impl": " ".join(aw[max(0, i - 12): i + 12]), "model": " ".join(bw[max(0, i - 12): i + 12])}
    return {"impl_words": len(aw), "model_words": len(bw), "impl_head": a[:80], "model_head": b[:80]}


# ----------------------------------------------------------------------------- exploration


def _work(args):
    cases, names, depth, option_sets, drv_name, n_adhoc, seed, deadline = args
    fw.use_repo()
    drv = fw.Driver(drv_name) if drv_name else None
    gens = [_check_schema_gen(c, names, depth, option_sets[c["idx"] % len(option_sets)], drv is not None, n_adhoc, seed) for c in cases]
    return _drive(gens, drv, deadline)


def all_option_bits(n):
    return ["".join(t) for t in itertools.product("10", repeat=n)]


def load_corpus():
    cases = []
    if CORPUS_DIR.is_dir():
        for p in sorted(CORPUS_DIR.glob("*.json")):
            c = json.loads(p.read_text())
            c.setdefault("mode", "sdl")
            c["corpus"] = p.name
            cases.append(c)
    return cases


def make_cases(ctx, n):
    import random

    cases = load_corpus()
    for i in range(n):
        rng = random.Random(f"c18:{ctx.seed}:{i}")
        mode = "prog" if i % 2 else "sdl"
        cases.append({"spec": G.gen_spec(rng, mode == "prog"), "mode": mode})
    for i, c in enumerate(cases):
        c["idx"] = i
    return cases


def explore(ctx) -> Report:
    fw.use_repo()
    names, defaults, depth = read_options(fw.REPO)
    n = len(names)
    every = all_option_bits(n)
    if ctx.tier == "quick":
        n_schemas, n_adhoc = (48, 10) if not ctx.escalate else (96, 12)
        # a seeded sample of 16 option sets per schema (different per schema; full and the defaults always in)
        dflt = "".join("1" if d else "0" for d in defaults)
        option_sets = []
        for k in range(16):
            rng = ctx.sub_rng(f"opts{k}")
            sample = rng.sample(every, 14)
            option_sets.append(list(dict.fromkeys(["1" * n, dflt, "0" * n] + sample))[:16])
    else:
        n_schemas, n_adhoc = 128, 30
        option_sets = [every]
    cases = make_cases(ctx, n_schemas)
    # one driver process per chunk (process start-up dominates on a loaded machine): interleave cases so
    # that chunks are balanced
    k = fw.WORKERS if ctx.tier == "quick" else fw.WORKERS * 4
    chunks = [cases[i::k] for i in range(k) if cases[i::k]]
    drv = DRIVER if ctx.driver else None
    # measured from the start of the exploration (build + audit time is not charged to it)
    deadline = time.time() + (150 if ctx.tier == "quick" else 760)
    reps = fw.pmap(_work, [(c, names, depth, option_sets, drv, n_adhoc, ctx.seed, deadline) for c in chunks])
    rep = Report()
    for r in reps:
        rep.merge(r)
    rep.rule = (
        f"generated valid schemas (validate_schema == []), half from SDL via build_schema, half assembled programmatically, "
        f"plus corpus; each x {'all %d' % len(every) if ctx.tier != 'quick' else '16 sampled'} option sets of the {n} extracted options "
        f"{names}; non-trivial = the schema exercises >= 3 of: interface implementing interface, union, OneOf, deprecated input field, "
        "deprecated argument, deprecated directive, repeatable directive, specifiedBy scalar, argument default; distinct by seed"
    )
    rep.exhaustive = ctx.tier != "quick"  # the option space (2^n) is enumerated completely per schema in the thorough tier
    sch = max(1, rep.stats.get("schemas", 0))
    rep.stats["option_sets_per_schema"] = len(option_sets[0])
    rep.stats["avg_types"] = round(rep.stats.get("types_total", 0) / sch, 1)
    rep.stats["avg_features"] = round(rep.stats.get("features_total", 0) / sch, 2)
    rep.stats["trivial_share"] = round(1 - rep.nontrivial / sch, 3)
    if rep.stats.get("schemas_skipped_time_budget"):
        rep.notes.append(f"time budget reached on a loaded machine: {rep.stats['schemas_skipped_time_budget']} generated schemas were not explored")
    if ctx.driver is None:
        rep.notes.append("model driver unavailable: correspondence and the Lean-restrict oracle were skipped")
    return rep


def search(ctx, rep) -> Report:
    # explore() already evaluates every property oracle on the implementation for every case; when something
    # broke, widen the search (more schemas, all option sets) once.
    if ctx.tier != "quick":
        return Report()
    fw.use_repo()
    names, defaults, depth = read_options(fw.REPO)
    every = all_option_bits(len(names))
    import random

    cases = []
    for i in range(16):
        rng = random.Random(f"c18-search:{ctx.seed}:{i}")
        mode = "prog" if i % 2 else "sdl"
        cases.append({"spec": G.gen_spec(rng, mode == "prog"), "mode": mode, "idx": i})
    drv = DRIVER if ctx.driver else None
    reps = fw.pmap(_work, [(cases[i::fw.WORKERS], names, depth, [every], drv, 8, ctx.seed, time.time() + 100) for i in range(fw.WORKERS)])
    out = Report()
    for r in reps:
        out.merge(r)
    out.disagreements = []
    return out


def replay(ctx, payload) -> Report:
    fw.use_repo()
    names, defaults, depth = read_options(fw.REPO)
    if "input" in payload:
        inp = payload["input"]
    elif payload.get("disagreements"):
        inp = payload["disagreements"][0]["input"]
    else:
        return Report(notes=["replay file names no input (a proof obligation broke without a failing input)"])
    case = {"spec": inp["spec"], "mode": inp.get("mode", "sdl"), "idx": 0, "beyond_depth": inp.get("beyond_depth", False)}
    return _check_schema(case, names, depth, all_option_bits(len(names)), ctx.driver, 20, ctx.seed)
