"""C05 — the incremental payload stream obeys the delivery protocol."""
from __future__ import annotations

import json
import random
import re
import warnings
from pathlib import Path

from tools import c05_direct as D
from tools import c05_e2e as E
from tools import fw
from tools.fw import Disagreement, Failure, Report

ID = "C05"
PROPS = "Gql.Props.C05"
DRIVER = "drv_c05"
LEVEL = "proof"
LEVEL_TEXT = (
    "Lean theorems about an executable model of WorkQueue + IncrementalPublisher (+ StreamItemQueue.batches), for all "
    "work graphs, all histories and all fuel values, no bound. For every well-formed environment history (EnvOk, an "
    "explicit decidable predicate): P1/P2 announced ids are strictly increasing, hence each id is announced at most "
    "once and never reused; P4 every announced id is completed exactly once in a stream that ended; P5 no proper "
    "ancestor of a pending (root) fragment is left in the graph, the pending fragments form an antichain, and at every "
    "payload boundary no announced-and-uncompleted entry encloses any announced entry (payload level, via the "
    "publisher's id table); P6 the stream entries of the payloads are the handled batches item for item in order, with "
    "consecutive source indices per stream; the "
    "scheduler-graph invariant (forest along parent, children listed once and not roots, child streams in one task "
    "node). Without any hypothesis on the environment: ids never reused after deletion, no id completed twice, no data "
    "after completion, P7 (hasNext true on every payload but the last; a payload with hasNext=false stops the scheduler "
    "and nothing follows). StreamItemQueue.batches() delivers an in-order prefix of the queue's items (P6 at the "
    "queue). The executable validator as a whole accepts every EnvOk history: protocol_prefix proves "
    "checkPrefix false (enclByLabels parents) d (payloads ...) = none for all histories (labels = group numbers, a "
    "stream's label outside the nesting relation), assembling P1 (incl. the new half: every incremental entry carries "
    "an id announced by this or an earlier payload, every completed entry such an id or is a failed completion, O1), "
    "P2, P3a, P4a, P4b, P5 and P7 through an invariant of the validator state; the statement without the stream-label "
    "hypothesis is refuted (protocol_prefix_full_fails, a label collision, replayed on the real publisher). "
    "Proved fuel bounds for _add_group, _prune_empty_groups, _remove_group. P3b is stated in full and REFUTED "
    "on the model by the known finding workqueue-prunes-promoted-group-with-undelivered-shared-task "
    "(p3b_defer_full_fails). The model is tied to the code by replaying scripted histories on the real "
    "WorkQueue/IncrementalPublisher/StreamItemQueue (event batches and payloads compared exactly); the Lean validator "
    "Spec.Protocol.check is the oracle for end-to-end runs of experimental_execute_incrementally."
)
LEVEL_NOTE = (
    "Trusted: Lean kernel; hand-written models Gql/Async/{WorkQueue,Publisher,StreamQueue}.lean tied to the code by "
    "correspondence only; asyncio scheduling is abstracted to 'one batch per quiescent point + deferred callbacks', "
    "validated on a harness-owned event loop; consumer pull timing, cancellation delivery and GC are outside the "
    "model (covered only by the end-to-end oracle). The clauses are proved as separate predicates on the payload "
    "stream and assembled into acceptance by the data-free validator (`checkPrefix false`, theorem protocol_prefix); "
    "the data-dependent clauses it skips (P3b, refuted by the known finding; the data-level half of P6) are decided by "
    "`check true` on every explored stream instead. drain's fuel (events per batch) is a parameter of every "
    "theorem. EnvOk is observed on what the real executor feeds the queue in every explored end-to-end run."
)
TECHNIQUE = "Lean 4 trace invariants over an executable scheduler model + differential replay + spec validator oracle"
TRUSTED = [
    "hand-written Lean models of work_queue.py / incremental_publisher.py / stream_item_queue.py batches(); tied to the "
    "code by replaying generated histories on the real classes (exact comparison of event batches and payloads)",
    "asyncio abstraction: all futures resolved between two quiescent points land in one batch in resolution order; "
    "done-callbacks of already-done futures and the pump's trailing _StreamSuccess run after the batch (FIFO `deferred`)",
    "the Lean protocol validator Gql/Spec/Protocol.lean (transcribed from the property text) is the oracle; a self-test "
    "corpus of hand-broken streams with the expected verdict is run first on every run",
]
ASSUMPTIONS = [
    "EnvOk (Gql/Async/EnvOk.lean): a task settles at most once and only after it was started; fresh group/task/stream "
    "objects per Work; a new group's parent is None, in the same Work or in the graph; nested work refers only to groups "
    "it introduces or groups of the producing task; streams deliver in index order and nothing after stop/failure; "
    "groups are numbered by allocation serial (a group's parent object exists before the group: parent g < g)",
    "EnvOk is *observed* on every explored end-to-end run: the harness records what the real executor feeds the "
    "WorkQueue (initial work, every handled graph event with its nested work) and drv_c05 decides envOk on it "
    "(evidence: e2e_feeds / e2e_feeds_envok). Known exception, counted as e2e_feeds_unfed_parent and noted: about 3 "
    "in 10^4 generated requests (null propagation + nested @defer under @stream) make the executor hand over a group "
    "whose parent fragment object it never handed over; the scheduler keeps it as an undelivered orphan; E2 excludes "
    "it, so the theorems do not cover those runs (their streams still pass the validator). Any other non-EnvOk feed "
    "is reported as a broken tie (disagreement)",
    "O1 (DESIGN §7): a `completed` entry for a never-announced id is accepted by the validator (no clause forbids it)",
    "the consumer pulls eagerly in the direct correspondence; lazy pulling is explored end-to-end only",
]
EXPLANATION = (
    "Theorems in Gql/Props/C05.lean (publisher-level for arbitrary event streams, scheduler-level for all histories and "
    "all fuel values). Correspondence: random and bounded-exhaustive histories on small work graphs replayed on the real "
    "WorkQueue+IncrementalPublisher and StreamItemQueue. Oracle: Spec.Protocol.check on every payload stream of the "
    "direct runs (data-free clauses) and of generated end-to-end requests (all clauses)."
)

CORPUS = fw.VERIF / "corpus" / "C05"

warnings.simplefilter("ignore", RuntimeWarning)
warnings.simplefilter("ignore", ResourceWarning)


# ------------------------------------------------------------------ encoding of direct payloads for the validator


def enc_direct_proto(case, payloads, complete):
    """Data-free validation of the payloads of a direct run (labels = group numbers)."""
    toks = [0, 1 if complete else 0]
    parents = [(g[0], g[1]) for g in case["groups"] if g[1] >= 0]
    toks += [len(parents)]
    for c, p in parents:
        toks += [c, p]
    toks += [0]  # no data
    toks += [len(payloads)]
    for pl in payloads:
        toks += [1 if pl.has_next else 0]
        pend = pl.pending or []
        toks += [len(pend)]
        for p in pend:
            path = [D.key_from_py(k) for k in p.path]
            toks += [int(p.id), len(path)] + path + [int(p.label) if p.label is not None else -1]
        incs = getattr(pl, "incremental", None) or []
        toks += [len(incs)]
        for e in incs:
            if hasattr(e, "items"):
                toks += [1, int(e.id), len(e.items)]
                for _ in e.items:
                    toks += [-1, 0]
            else:
                sub = [D.key_from_py(k) for k in (e.sub_path or [])]
                toks += [0, int(e.id), len(sub)] + sub + [0]
        comp = getattr(pl, "completed", None) or []
        toks += [len(comp)]
        for c in comp:
            toks += [int(c.id), 1 if c.errors else 0]
    return "proto " + " ".join(str(t) for t in toks)


def _direct_features(line):
    f = {}
    f["promote_groups"] = bool(re.search(r"GS \d+ \[\d", line))
    f["promote_streams"] = bool(re.search(r"GS \d+ \[[\d,]*\] \[\d", line))
    f["stream_item_work"] = bool(re.search(r"SV \d+ \[[\d,]*\] \[\d", line)) or bool(
        re.search(r"SV \d+ \[[\d,]*\] \[\] \[\d", line)
    )
    f["multi_batch_tick"] = bool(re.search(r"\) \(", line.split(" || ")[0]))
    f["group_failure"] = "GF " in line
    f["stream_failure"] = "SF " in line
    f["stream_success"] = "SS " in line
    f["sub_path"] = bool(re.search(r"D\d+\[\d", line))
    f["terminated"] = "TERM" in line
    return f


def _compare_direct(rep, driver, runs):
    """runs: list of (case, impl_line, payloads, complete)."""
    if not runs:
        return
    if driver is None:
        rep.evaluations += len(runs)
        return
    outs = driver.run([D.enc_case(c) for c, _l, _p, _d in runs])
    proto_lines, proto_meta = [], []
    for (case, line, payloads, complete), out in zip(runs, outs):
        rep.evaluations += 1
        model, _, tail = out.partition(" || envok ")
        envok = tail.startswith("1")
        feats = _direct_features(line)
        for k, v in feats.items():
            if v:
                rep.stats["direct_" + k] = rep.stats.get("direct_" + k, 0) + 1
        rep.stats["direct_envok"] = rep.stats.get("direct_envok", 0) + (1 if envok else 0)
        if len(case["history"]) >= 2 and (feats["promote_groups"] or feats["promote_streams"] or feats["group_failure"] or feats["stream_item_work"]):
            rep.nontrivial += 1
        if "FUEL-EXHAUSTED" in out:
            rep.notes.append("model fuel exhausted on a case")
        if line != model:
            rep.disagreements.append(
                Disagreement("WorkQueue+IncrementalPublisher", {"kind": "direct", "case": _strip(case)}, line, model)
            )
        if envok:
            proto_lines.append(enc_direct_proto(case, payloads, complete))
            proto_meta.append((case, line))
    if proto_lines:
        for (case, line), verdict in zip(proto_meta, driver.run(proto_lines)):
            rep.evaluations += 1
            if verdict != "ok":
                clause = verdict.split()[0]
                rep.failures.append(
                    Failure(
                        f"direct-{clause}",
                        f"payload stream of a scripted history violates {verdict}",
                        {"kind": "direct", "case": _strip(case)},
                        line,
                        "Spec.Protocol.check = none",
                        "Spec.Protocol.check (data-free clauses) on the implementation's payloads",
                    )
                )


def _strip(case):
    return {k: v for k, v in case.items() if not k.startswith("_")}


def _run_direct_one(case, chooser=None):
    line, payloads, done = D.run_case(case, chooser)
    return (case, line, payloads, done)


def _work_direct_random(args):
    seeds, drv, limits = args
    fw.use_repo()
    rep = Report()
    driver = fw.Driver(drv) if drv else None
    runs = []
    for seed in seeds:
        rng = random.Random(f"c05-direct:{seed}")
        case = D.gen_case(rng, *limits, wild=(rng.random() < 0.1))
        try:
            runs.append(_run_direct_one(case, D.random_chooser(case, rng)))
        except Exception as e:  # noqa: BLE001
            rep.disagreements.append(
                Disagreement("WorkQueue+IncrementalPublisher (harness exception)", {"kind": "direct", "case": _strip(case)}, repr(e), "a trace")
            )
    _compare_direct(rep, driver, runs)
    if runs:
        c, line, _p, _d = runs[len(runs) // 2]
        rep.samples.append({"direct_case": _strip(c), "trace": line})
    return rep


def _work_direct_exhaustive(args):
    seeds, drv, limits, cap = args
    fw.use_repo()
    rep = Report()
    driver = fw.Driver(drv) if drv else None
    runs = []
    capped = 0
    for seed in seeds:
        rng = random.Random(f"c05-dfs:{seed}")
        base = D.gen_case(rng, *limits)
        stack = [[]]
        leaves = 0
        while stack:
            prefix = stack.pop()
            case = json.loads(json.dumps(base))
            enabled = []
            try:
                run = _run_direct_one(case, D.scripted_chooser(prefix, case, enabled))
            except Exception as e:  # noqa: BLE001
                rep.disagreements.append(
                    Disagreement("WorkQueue+IncrementalPublisher (harness exception)", {"kind": "direct", "case": _strip(case)}, repr(e), "a trace")
                )
                continue
            if not enabled or len(prefix) >= 14:
                runs.append(run)
                leaves += 1
                if leaves >= cap:
                    capped += 1
                    break
            else:
                for m in enabled:
                    stack.append(prefix + [[m]])
        if len(runs) >= 400:
            _compare_direct(rep, driver, runs)
            runs = []
    _compare_direct(rep, driver, runs)
    rep.stats["dfs_graphs"] = len(seeds)
    rep.stats["dfs_graphs_capped"] = capped
    return rep


# ------------------------------------------------------------------ StreamItemQueue.batches()


def gen_sq(rng):
    """Entries: [0,v] item, [1,id] pending future (id % 4: 1 rejected, 3 cancelled, else fulfilled when
    waited for), [2,v] fulfilled future, [3,id] rejected future, [7,id] cancelled future; terminal [4] end,
    [5] the source raises (the queue then cancels the pending futures), [6] the producer never finishes."""
    n = rng.randint(0, 6)
    entries = []
    nid = 0
    for _ in range(n):
        k = rng.choice([0, 0, 0, 1, 1, 1, 2, 3, 7])
        nid += 4
        if k == 0:
            entries.append([0, nid])
        elif k == 1:
            r = rng.random()
            entries.append([1, nid + (1 if r < 0.2 else 3 if r < 0.35 else 0)])
        elif k == 2:
            entries.append([2, nid])
        elif k == 3:
            entries.append([3, nid + 1])
        else:
            entries.append([7, nid + 3])
    entries.append([rng.choice([4, 4, 4, 5, 6])])
    return entries


def run_sq(entries):
    """The real StreamItemQueue on a scripted producer; canonical step list like `drv_c05 sq`."""
    import asyncio

    from graphql.execution.incremental.stream_item_queue import StreamItemQueue
    from graphql.execution.incremental.work_queue import WorkResult

    loop = asyncio.new_event_loop()

    class CountingFuture(asyncio.Future):
        """Harness-owned future that knows whether someone besides `push` subscribed to it."""

        n_cb = 0

        def add_done_callback(self, fn, *, context=None):
            self.n_cb += 1
            return super().add_done_callback(fn, context=context)

    futs = []  # (id, future) of pending futures in script order
    failed = []
    hang = None

    def quiesce():
        for _ in range(10000):
            loop.call_soon(loop.stop)
            loop.run_forever()
            if not loop._ready:  # noqa: SLF001
                return
        raise RuntimeError("no quiescence")

    async def produce(queue):
        nonlocal hang
        for e in entries:
            k = e[0]
            if k == 0:
                await queue.push(WorkResult(e[1]))
            elif k == 1:
                f = CountingFuture(loop=loop)
                futs.append((e[1], f))
                await queue.push(f)
            elif k == 2:
                f = loop.create_future()
                f.set_result(WorkResult(e[1]))
                await queue.push(f)
            elif k == 3:
                f = loop.create_future()
                f.set_exception(RuntimeError("item"))
                failed.append(f)
                await queue.push(f)
            elif k == 7:
                f = loop.create_future()
                f.cancel()
                await queue.push(f)
            elif k == 4:
                return
            elif k == 5:
                raise RuntimeError("source")
            else:
                hang = loop.create_future()
                await hang

    out = []
    try:
        q = StreamItemQueue(produce, None, eager=False)
        agen = q.batches()
        for _ in range(4 * len(entries) + 8):
            task = loop.create_task(agen.__anext__())
            quiesce()
            ended = False
            while not task.done():
                # the future the consumer subscribed to (push itself adds one callback)
                nxt = next(((i, f) for i, f in futs if not f.done() and f.n_cb >= 2), None)
                if nxt is None:
                    out.append("park")
                    ended = True
                    break
                i, f = nxt
                out.append(f"wait {i}")
                if i % 4 == 1:
                    f.set_exception(RuntimeError("item"))
                elif i % 4 == 3:
                    f.cancel()
                else:
                    f.set_result(WorkResult(i))
                quiesce()
            if ended:
                task.cancel()
                quiesce()
                break
            try:
                batch = task.result()
            except StopAsyncIteration:
                out.append("finish")
                break
            except BaseException:  # noqa: BLE001
                out.append("raise")
                break
            out.append(f"yield {D.nats([r.value for r in batch])} stopped={1 if q.is_stopped() else 0}")
        r = q.abort()
        if r is not None:
            loop.run_until_complete(r)
        if hang is not None and not hang.done():
            hang.cancel()
        quiesce()
        for f in [f for _i, f in futs] + failed:
            if f.done() and not f.cancelled():
                f.exception()
    finally:
        try:
            pend = [t for t in asyncio.all_tasks(loop) if not t.done()]
            for t in pend:
                t.cancel()
            if pend:
                loop.run_until_complete(asyncio.gather(*pend, return_exceptions=True))
        finally:
            loop.close()
    return " ; ".join(out)


def enc_sq(entries):
    toks = []
    n = 0
    for e in entries:
        if e[0] == 6:
            break  # the model sees an empty queue: park
        n += 1
        toks += [e[0]] + ([e[1]] if e[0] < 4 or e[0] == 7 else [])
    return "sq " + " ".join(str(t) for t in [n] + toks)


def _work_sq(args):
    seeds, drv = args
    fw.use_repo()
    rep = Report()
    driver = fw.Driver(drv) if drv else None
    cases = [gen_sq(random.Random(f"c05-sq:{s}")) for s in seeds]
    impl = []
    for c in cases:
        try:
            impl.append(run_sq(c))
        except Exception as e:  # noqa: BLE001
            impl.append("harness-exception " + repr(e))
    if driver:
        outs = driver.run([enc_sq(c) for c in cases])
        for c, a, b in zip(cases, impl, outs):
            rep.evaluations += 1
            if a != b:
                rep.disagreements.append(Disagreement("StreamItemQueue.batches", {"kind": "sq", "entries": c}, a, b))
            # P6 at the queue level, judged on the implementation: delivered values are exactly the
            # scripted item values in order, up to the first failure
            want = []
            source_fails = c[-1][0] == 5
            for e in c:
                if e[0] in (0, 2) or (e[0] == 1 and e[1] % 4 not in (1, 3) and not source_fails):
                    want.append(e[1])
                else:
                    break
            got = [int(x) for part in a.split(" ; ") if part.startswith("yield") for x in re.findall(r"\d+", part.split("]")[0])]
            if got != want[: len(got)] or ("finish" in a and got != want):
                rep.failures.append(
                    Failure("streamqueue-order", "StreamItemQueue delivers items out of order / with gaps", {"kind": "sq", "entries": c}, got, want, "P6 (queue level)")
                )
            rep.stats["sq_cases"] = rep.stats.get("sq_cases", 0) + 1
    return rep


# ------------------------------------------------------------------ end to end


def _work_e2e(args):
    seeds, drv, given = args
    fw.use_repo()
    rep = Report()
    driver = fw.Driver(drv) if drv else None
    cases = list(given) + [E.gen_case(random.Random(f"c05-e2e:{s}")) for s in seeds]
    lines, meta = [], []
    feed_lines, feed_meta = [], []
    for case in cases:
        rep.evaluations += 1
        try:
            init, subs, info = E.run_case(case)
        except Exception as e:  # noqa: BLE001
            rep.failures.append(
                Failure("e2e-exception", "experimental_execute_incrementally raised", {"kind": "e2e", "case": case}, repr(e), "a response stream", "C05 (no response stream)")
            )
            continue
        if info["hang"]:
            rep.failures.append(
                Failure("e2e-hang", "the response stream never ends (hasNext=false never sent)", {"kind": "e2e", "case": case}, "timeout", "termination", "P7")
            )
            continue
        if init is None:
            rep.stats["e2e_non_incremental"] = rep.stats.get("e2e_non_incremental", 0) + 1
            continue
        st = E.stats_of(init, subs)
        for k, v in st.items():
            rep.stats["e2e_" + k] = rep.stats.get("e2e_" + k, 0) + v
        rep.stats["e2e_streams"] = rep.stats.get("e2e_streams", 0) + 1
        if st["late_pending"] or st["completed_err"]:
            rep.nontrivial += 1
        line, id_names = E.enc_stream(case, init, subs, want_ids=True)
        lines.append(line)
        meta.append((case, init, subs, id_names, list(info.get("pruned_undelivered") or [])))
        # what the real executor fed the scheduler: is it a well-formed environment (EnvOk)?
        for feed in info.get("feeds") or []:
            try:
                feed_lines.append(feed.sim_line())
                feed_meta.append((case, feed.case(), feed.unfed_parents()))
            except Exception as e:  # noqa: BLE001
                rep.notes.append(f"feed recording failed: {e!r}")
    if driver and lines:
        for (case, init, subs, id_names, pruned), verdict in zip(meta, driver.run(lines)):
            if verdict != "ok":
                clause = verdict.split()[0]
                fp = f"e2e-{clause}"
                if clause == "P3b" and E.classify_p3b(verdict, id_names, init, subs, pruned):
                    fp = E.KNOWN_PRUNE_FP
                rep.failures.append(
                    Failure(
                        fp,
                        f"response stream violates {verdict}"
                        + (f"; WorkQueue pruned a promoted group holding an undelivered shared task: {pruned}" if fp == E.KNOWN_PRUNE_FP else ""),
                        {"kind": "e2e", "case": case},
                        [init] + subs,
                        "Spec.Protocol.protocolOk",
                        "Spec.Protocol.check on the stream of experimental_execute_incrementally",
                    )
                )
    if driver and feed_lines:
        for (case, feed, unfed), out in zip(feed_meta, driver.run(feed_lines)):
            rep.evaluations += 1
            rep.stats["e2e_feeds"] = rep.stats.get("e2e_feeds", 0) + 1
            rep.stats["e2e_feed_events"] = rep.stats.get("e2e_feed_events", 0) + sum(len(t) for t in feed["history"])
            if "|| envok 1" in out:
                rep.stats["e2e_feeds_envok"] = rep.stats.get("e2e_feeds_envok", 0) + 1
            elif unfed:
                # EnvOk is a hypothesis, not the property: a run outside it is outside the theorems (its
                # stream is still judged by the validator above).  Diagnosed cause: the executor hands the
                # scheduler a group whose parent fragment object it never handed over; the scheduler keeps
                # such a group as an orphan that is never delivered.
                rep.stats["e2e_feeds_unfed_parent"] = rep.stats.get("e2e_feeds_unfed_parent", 0) + 1
                if rep.stats["e2e_feeds_unfed_parent"] <= 2:
                    rep.notes.append(
                        "feed outside EnvOk (E2): group(s) with a parent never given to the scheduler "
                        f"{unfed}; query={case['query']!r} sched={case['sched']} early={case['early']}"
                    )
            else:
                # the model's hypotheses do not cover what the executor does: a broken tie, not by itself
                # a violation of the property
                rep.disagreements.append(
                    Disagreement(
                        "EnvOk vs the incremental executor's feed",
                        {"kind": "e2e", "case": case},
                        feed,
                        "envOk = true",
                    )
                )
    if meta:
        case, init, subs = meta[len(meta) // 2][:3]
        rep.samples.append({"e2e_case": case, "payloads": len(subs) + 1})
    return rep


# ------------------------------------------------------------------ corpus


def _corpus():
    direct, e2e, selftest = [], [], []
    if CORPUS.is_dir():
        for f in sorted(CORPUS.glob("*.json")):
            doc = json.loads(f.read_text())
            for item in doc if isinstance(doc, list) else [doc]:
                k = item.get("kind")
                if k == "direct":
                    direct.append(item["case"])
                elif k == "e2e":
                    e2e.append(item["case"])
                elif k == "selftest":
                    selftest.append(item)
    return direct, e2e, selftest


def _selftest(ctx, rep, selftest):
    """Hand-broken streams must be rejected with the expected clause (the oracle is not vacuous)."""
    if not ctx.driver or not selftest:
        return
    lines = [E.enc_stream({"nest": s.get("nest", [])}, s["initial"], s["subsequent"]) for s in selftest]
    for s, verdict in zip(selftest, ctx.driver.run(lines)):
        rep.evaluations += 1
        got = verdict.split()[0]
        if got != s["expect"]:
            raise fw.InfraError(f"validator self-test {s.get('name')}: expected {s['expect']}, got {verdict}")


# ------------------------------------------------------------------ entry points


def _sizes(ctx):
    if ctx.tier == "quick":
        n = dict(direct=2000, dfs=12, dfs_cap=150, sq=1200, e2e=600)
        if ctx.escalate:
            n = dict(direct=12000, dfs=60, dfs_cap=200, sq=4000, e2e=2500)
    else:
        n = dict(direct=40000, dfs=600, dfs_cap=400, sq=20000, e2e=10000)
    return n


def explore(ctx) -> Report:
    fw.use_repo()
    rep = Report()
    drv = DRIVER if ctx.driver else None
    n = _sizes(ctx)
    base = ctx.seed * 10_000_019
    c_direct, c_e2e, selftest = _corpus()
    _selftest(ctx, rep, selftest)
    # corpus first
    runs = []
    for case in c_direct:
        try:
            runs.append(_run_direct_one(json.loads(json.dumps(case))))
        except Exception as e:  # noqa: BLE001
            rep.disagreements.append(Disagreement("corpus (harness exception)", {"kind": "direct", "case": case}, repr(e), "a trace"))
    _compare_direct(rep, ctx.driver, runs)
    rep.merge(_work_e2e(([], drv, c_e2e)))
    rep.stats["corpus_cases"] = len(c_direct) + len(c_e2e) + len(selftest)

    limits = (3, 3, 2, 2)
    jobs = []
    W = fw.WORKERS
    seeds = list(range(base, base + n["direct"]))
    jobs += [("direct", (c, drv, limits)) for c in fw.chunked(seeds, W * 2)]
    big = list(range(base + 5_000_000, base + 5_000_000 + n["direct"] // 8))
    jobs += [("direct", (c, drv, (4, 5, 3, 3))) for c in fw.chunked(big, W)]
    dfs = list(range(base, base + n["dfs"]))
    jobs += [("dfs", (c, drv, (3, 3, 2, 2), n["dfs_cap"])) for c in fw.chunked(dfs, W * 2)]
    sq = list(range(base, base + n["sq"]))
    jobs += [("sq", (c, drv)) for c in fw.chunked(sq, W)]
    e2e = list(range(base, base + n["e2e"]))
    jobs += [("e2e", (c, drv, [])) for c in fw.chunked(e2e, W * 3)]
    for r in fw.pmap(_dispatch, jobs):
        rep.merge(r)
    capped = rep.stats.get("dfs_graphs_capped", 0)
    rep.exhaustive = capped == 0
    rep.rule = (
        f"direct: {n['direct']} random work graphs (<=3 groups, <=3 tasks, <=2 streams of <=2 items; 1/8 more with <=4/5/3/3; 10% "
        "deliberately ill-formed) x one seeded random schedule (1-3 moves per tick), plus "
        f"{n['dfs']} graphs x every order of single moves (depth-first, cap {n['dfs_cap']} complete histories per graph, "
        f"{capped} graphs hit the cap); non-trivial = history of >= 2 ticks with a promotion, a group failure or work spawned by a "
        "stream item. StreamItemQueue: random entry scripts of <= 6 entries. End-to-end: generated queries (nested/overlapping/"
        "labelled @defer, @stream initialCount 0..5, sync/async resolvers and iterators, null propagation) x seeded schedule x "
        "early execution on/off x consumer laziness; non-trivial = stream with a late announcement or a failed completion."
    )
    return rep


def _dispatch(job):
    kind, args = job
    warnings.simplefilter("ignore", RuntimeWarning)
    if kind == "direct":
        return _work_direct_random(args)
    if kind == "dfs":
        return _work_direct_exhaustive(args)
    if kind == "sq":
        return _work_sq(args)
    return _work_e2e(args)


def search(ctx, rep) -> Report:
    """Failing-input search after a broken proof obligation / correspondence: the oracle already ran
    on every explored case; widen the end-to-end and direct exploration once."""
    if ctx.driver is None:
        return Report(notes=["model driver unavailable: the protocol oracle needs the Lean validator; no search possible"])
    fw.use_repo()
    out = Report()
    drv = DRIVER
    base = (ctx.seed + 77) * 10_000_019
    W = fw.WORKERS
    jobs = [("e2e", (c, drv, [])) for c in fw.chunked(range(base, base + 2000), W * 3)]
    jobs += [("direct", (c, drv, (4, 5, 3, 3))) for c in fw.chunked(range(base, base + 6000), W * 2)]
    # re-run the disagreeing direct cases through the oracle only
    for r in fw.pmap(_dispatch, jobs):
        r.disagreements = []
        out.merge(r)
    out.notes.append("search: 2000 more end-to-end requests and 6000 more direct histories through the protocol oracle")
    return out


def replay(ctx, payload) -> Report:
    fw.use_repo()
    inp = payload.get("input") or (payload.get("disagreements") or [{}])[0].get("input")
    if not inp:
        raise fw.InfraError("replay file carries no input")
    rep = Report()
    kind = inp.get("kind")
    if kind == "direct":
        run = _run_direct_one(json.loads(json.dumps(inp["case"])))
        _compare_direct(rep, ctx.driver, [run])
        rep.samples.append({"trace": run[1]})
    elif kind == "e2e":
        rep.merge(_work_e2e(([], DRIVER if ctx.driver else None, [inp["case"]])))
    elif kind == "sq":
        a = run_sq(inp["entries"])
        b = ctx.driver.run([enc_sq(inp["entries"])])[0] if ctx.driver else None
        rep.evaluations = 1
        if b is not None and a != b:
            rep.disagreements.append(Disagreement("StreamItemQueue.batches", inp, a, b))
    return rep
