"""C13 — a document that passes validation cannot go wrong at execution time."""
from __future__ import annotations

import json
import re

from checks import c02
from tools import c02_gen as G
from tools import fw
from tools.fw import Disagreement, Failure, Report

ID = "C13"
PROPS = "Gql.Props.C13"
DRIVER = "drv_c13"
LEVEL = "proof"
LEVEL_TEXT = (
    "Lean: the validation rules execution depends on as one executable predicate (Gql/Exec/ValidDoc.lean), data "
    "conformance and the prescribed response shape (Gql/Exec/Shape.lean), and theorems about the specification "
    "executor of C02 (see Gql/Props/C13.lean; the general soundness statement is present in full, the proved part "
    "is named _partial). Tie to the code: (1) required direction validate()==[] => ValidDoc on type-directed "
    "documents and accepted mutants; (2) on accepted documents with accepted variables and conforming data the "
    "implementation's response must have no errors and the shape the Lean specification prescribes (shapeResponse "
    "through the driver); (3) with hostile data every error must be data-attributable; (4) required direction "
    "validate()==[] => specMergeable (Field Selection Merging on C13's own document model, Gql/Exec/ValidMerge.lean), "
    "the static hypothesis that replaces MergeOk in soundness_partial4 / blame_partial4."
)
LEVEL_NOTE = (
    "Trusted: Lean kernel, the hand-written ValidDoc/Shape definitions, the harness (generator of conforming data, "
    "conservative classification of error messages by their leading words). Field merging enters as the static "
    "predicate specMergeable (evaluated through the driver on every accepted document; MergeOkT is derived from it "
    "in Lean), schema validity (C20) as a hypothesis. The one run-time exception of the specification (a null variable reaching a non-null "
    "position that was allowed because of a default) is recognised through the driver (mayHitNullViaDefault)."
)
TECHNIQUE = "validator transcription + soundness theorems (staged) + direct property oracle on the implementation"
TRUSTED = [
    "hand-written Lean transcription of the validation rules (Gql/Exec/ValidDoc.lean), compared with validate() in the "
    "required direction on every generated document",
    "the generator's conforming mode really produces conforming data (every value of the declared kind); the oracle "
    "'no errors on conforming data' depends on it",
    "classification of error messages: only messages starting with \"Argument '\" or \"Variable '\" or \"Unknown\" are "
    "treated as request-attributable",
]
ASSUMPTIONS = [
    "schemas are valid (assert_valid_schema) and built from SDL; no custom scalars, is_type_of, oneOf",
    "field merging: specMergeable is the specification's FieldsInSetCanMerge + SameResponseShape, except that a pair "
    "with a __typename has no shape requirement (what the implementation and graphql-js do; C14 known finding); "
    "interface fields are implemented with identical definitions (SoundHyps.ifaceOk)",
    "the exception the specification defers to run time is exempted when a variable with runtime value null is used",
]
EXPLANATION = (
    "validate()==[] => ValidDoc (Lean) on generated documents; accepted documents + accepted variables + conforming "
    "data => no errors and shapeResponse(data) (Lean, through the driver); hostile data => no request-attributable "
    "error. Theorems (Gql/Props/C13.lean): soundness_partial1 (fields/arguments/literals/abstract types), _partial2 "
    "(+ variables, allowed position incl. the default clause, run-time exception decided per position), _partial3 "
    "(+ fragments, type conditions, @skip/@include, merged keys under MergeOk; checkable instance "
    "mergeOk_of_keyNames), _partial4 / blame_partial4 (MergeOk replaced by the static rule specMergeable: "
    "mergeOkT_of_specMergeable; the unrestricted MergeOk does not follow from validation: mergeOk_not_from_validation), "
    "blame_partial2/3/4 (arbitrary data: no argument/directive coercion error); soundness_full / blame_full as stated "
    "(validOp only) are refuted (soundness_full_false, blame_full_false). Hypotheses left: value layer (OpsSoundV, "
    "C15), schema validity (SoundHyps)."
)

def make_case(seed_text):
    """C13's own case mix: boundary variables at every depth of argument literals (55%), response
    keys merged across fragments in exclusive / overlapping contexts (23%), response keys colliding
    under object / interface / union parent types (12%), C02's stream (10%)."""
    import random

    rng = random.Random("mix:" + seed_text)
    r = rng.random()
    if r < 0.55:
        return c02.make_case(seed_text, profile="c13")
    if r < 0.78:
        return make_two_context_case(seed_text)
    if r < 0.90:
        return make_iface_context_case(seed_text)
    return c02.make_case(seed_text)


def make_iface_context_case(seed_text):
    import random

    from tools import c13_merge_gen as M

    rng = random.Random(seed_text)
    info = M.iface_context_info()
    sdl = G.schema_sdl(info)
    docs = [{"text": M.gen_iface_context_document(rng), "ops": [{"name": None, "kind": "query", "vars": []}], "mutations": []}
            for _ in range(5)]
    reqs = []
    for _ in range(6):
        mode = "conforming" if rng.random() < 0.8 else "hostile"
        data = G.gen_data(rng, info, G.T("Query", True), mode, 0, 0.08, max_depth=6)
        reqs.append({"doc": rng.randrange(5), "op": None, "vars": {}, "data": data, "mode": mode})
    return {"sdl": sdl, "docs": docs, "requests": reqs, "info": info, "seed": seed_text, "family": "iface_context"}


def make_two_context_case(seed_text):
    import random

    rng = random.Random(seed_text)
    info = G.two_context_info()
    sdl = G.schema_sdl(info)
    docs = [{"text": G.gen_two_context_document(rng), "ops": [{"name": None, "kind": "query", "vars": []}], "mutations": []}
            for _ in range(3)]
    reqs = []
    for _ in range(5):
        mode = "conforming" if rng.random() < 0.8 else "hostile"
        data = G.gen_data(rng, info, G.T("Query", True), mode, 0, 0.08, max_depth=6)
        reqs.append({"doc": rng.randrange(3), "op": None, "vars": {}, "data": data, "mode": mode})
    return {"sdl": sdl, "docs": docs, "requests": reqs, "info": info, "seed": seed_text}


def probe_accepted(case, schema, document, di):
    """Look for the failing input that explains an acceptance the rules reject: execute the
    document (and its variant in which literal `@skip(if: true)` / `@include(if: false)` no longer
    hide selections — still accepted by validate()) over conforming data, with variables omitted,
    generated, all null, and Boolean variables chosen so that selections are included.
    Returns [(message, stored case)] for request-attributable errors."""
    import random

    from graphql import parse, validate
    from graphql.execution.values import get_variable_values
    from graphql.language import OperationDefinitionNode

    info = case.get("info")
    rng = random.Random("probe:" + str(case.get("seed")) + str(di))
    text = case["docs"][di]["text"]
    candidates = [(text, document)]
    neutral = text.replace("@skip(if: true)", "@skip(if: false)").replace("@include(if: false)", "@include(if: true)")
    if neutral != text:
        try:
            d2 = parse(neutral)
            if validate(schema, d2) == []:
                candidates.append((neutral, d2))
        except Exception:  # noqa: BLE001
            pass
    skip_vars = set(re.findall(r"@skip\(if: \$(\w+)\)", text))
    incl_vars = set(re.findall(r"@include\(if: \$(\w+)\)", text))
    for cand_text, cand_doc in reversed(candidates):
        ops = [d for d in cand_doc.definitions if isinstance(d, OperationDefinitionNode)]
        for op, opinfo in zip(ops, case["docs"][di]["ops"]):
            attempts = []
            if info is None:
                # a stored case: its own requests on this document
                attempts = [(r["vars"], r["data"]) for r in case["requests"] if r["doc"] == di and r["mode"] == "conforming"]
            else:
                root_t = info["mutation"] if opinfo["kind"] == "mutation" else info["query"]
                declared = {v["name"] for v in opinfo["vars"]}
                nullable_vars = [v["name"] for v in opinfo["vars"] if not G.tt(v["type"])[2]]
                plans = [("omit", None)] + [("null", n) for n in nullable_vars] + [("allnull", None)] + [("random", None)] * 6
                for kind, which in plans:
                    if kind == "omit":
                        raw = {}
                    else:
                        # required variables always get a value; nullable ones a value, or null as planned
                        raw = {v["name"]: G.gen_input_value(rng, info, (G.tt(v["type"])[0], G.tt(v["type"])[1], True)) for v in opinfo["vars"]}
                        if kind == "random":
                            raw = G.gen_variables(rng, info, opinfo, "c13")
                        for n in nullable_vars:
                            if kind == "allnull" or n == which:
                                raw[n] = None
                        for n in declared & (skip_vars | incl_vars):  # include what directives on variables would hide
                            raw[n] = (n in incl_vars) if (n in skip_vars) != (n in incl_vars) else (rng.random() < 0.5)
                    for _ in range(2):
                        attempts.append((raw, G.gen_data(rng, info, G.T(root_t, True), "conforming", 0, 0.0, max_depth=6)))
            for raw, data in attempts:
                cv = get_variable_values(schema, op.variable_definitions or (), raw)
                if isinstance(cv, list):
                    continue
                has_null = any(v is None for v in cv.coerced.values())
                req = {"doc": 0, "op": opinfo["name"] if len(ops) > 1 else None, "vars": raw, "data": data, "mode": "conforming"}
                d1, e1, l1, res, _ = c02.run_impl(schema, cand_doc, req)
                if d1 is None:
                    continue
                for e in res.errors or []:
                    # with a null variable in play the run-time exception of the specification may apply,
                    # except at OneOf fields (nullable, no defaults: never a position allowed through a default)
                    if has_null and error_kind(e.message or "") != "oneof-variable":
                        continue
                    if REQUEST_ATTRIBUTABLE.match(e.message or ""):
                        stored_case = {"sdl": case["sdl"], "docs": [dict(case["docs"][di], text=cand_text)],
                                       "requests": [req], "seed": case.get("seed"), "request_index": 0}
                        return [(e.message, json.loads(json.dumps(stored_case, default=repr)))]
    return []


def error_kind(message):
    """stable, coarse kind of a request-attributable error (for fingerprints)"""
    if "OneOf" in message:
        return "oneof-variable"
    if message.startswith("Argument '") and "was not provided" in message:
        return "required-argument-missing"
    if message.startswith("Argument '"):
        return "argument-invalid-value"
    if message.startswith("Variable '"):
        return "variable"
    return "other"


def keys_merge(text):
    """the document text repeats a response key (rough measure of how often merging is exercised)"""
    names = re.findall(r"(?<![$@:\w])([_A-Za-z]\w*)(?=\s*[:({\s}@])", text)
    seen = set()
    for n in names:
        if n in ("query", "mutation", "fragment", "on", "true", "false", "null"):
            continue
        if n in seen:
            return True
        seen.add(n)
    return False


REQUEST_ATTRIBUTABLE = re.compile(r"^(Argument '|Variable '|Unknown argument|Unknown type|Cannot query field)")


def _work(args):
    seeds, base_seed, drv, stored_cases = args
    fw.use_repo()
    rep = Report()
    driver = fw.Driver(drv) if drv else None
    cases = list(stored_cases) + [make_case(f"c13:{base_seed}:{s}") for s in seeds]
    for i in range(0, len(cases), 40):
        check_cases(cases[i : i + 40], rep, driver)
    return rep


def check_cases(cases, rep, driver):
    from graphql.execution.values import get_variable_values

    st = rep.stats

    def bump(k, n=1):
        st[k] = st.get(k, 0) + n

    prepared = []
    lines = []
    for case in cases:
        schema, documents, valid, meta, _line = c02.prepare_case(case)
        schema_sx = G.schema_sx_from_sdl(case["sdl"])
        docs_sx = [G.ast_doc_sx(d) for d in documents]
        for di, dsx in enumerate(docs_sx):
            lines.append(f"valid (case {schema_sx} {dsx})")
        prepared.append((case, schema, documents, valid, meta, schema_sx, docs_sx))
    outs = driver.run(lines) if driver else [None] * len(lines)
    k = 0
    shape_lines, shape_meta = [], []
    for case, schema, documents, valid, meta, schema_sx, docs_sx in prepared:
        bump("cases")
        model_valid = []
        for di in range(len(documents)):
            out = outs[k]
            k += 1
            bump("documents")
            if out is None:
                model_valid.append(None)
                continue
            if not out.startswith("v "):
                raise fw.InfraError(f"driver: {out[:200]}")
            bits = out.split()[1:]
            merge_bits = bits[bits.index("m") + 1:] if "m" in bits else None
            if merge_bits is not None:
                bits = bits[: bits.index("m")]
            mv = bits[0] == "1"
            model_valid.append(mv)
            iv = valid[di]
            if merge_bits is not None and any(b != "1" for b in merge_bits) and iv is False:
                bump("merge_false_and_impl_rejects")
            rep.evaluations += 1
            if case.get("family") == "iface_context":
                bump("iface_context_documents")
                if iv:
                    bump("iface_context_accepted")
            if "...F1" in case["docs"][di]["text"] and "on Holder" in case["docs"][di]["text"]:
                bump("two_context_documents")
                if iv:
                    bump("two_context_accepted")
            if iv is None:
                bump("validate_raises")
            elif iv and not mv:
                # An acceptance the model rejects: look for the failing input that explains it
                # (DESIGN C13: replay it on conforming data); unexplained -> correspondence break.
                found = probe_accepted(case, schema, documents[di], di)
                if found:
                    bump("required_direction_explained_by_failing_input")
                    for msg, stored_case in found[:1]:
                        rep.failures.append(Failure(
                            "request-attributable-error/" + error_kind(msg),
                            "validate() accepts a document the rules reject, and executing it over conforming data "
                            "produces an error attributable to the request",
                            stored_case, [msg], "rejected by validation, or no request-attributable error", "C13-1/2 (required direction)"))
                else:
                    rep.disagreements.append(Disagreement(
                        "validate()==[] but ValidDoc rejects (required direction)",
                        {"sdl": case["sdl"], "document": case["docs"][di]["text"]}, "accepted", out))
            elif iv and mv:
                bump("accepted_by_both")
                # required direction for the merge hypothesis of soundness_partial4 / blame_partial4:
                # validate() (OverlappingFieldsCanBeMergedRule) accepts  =>  Valid.specMergeable for every operation
                if merge_bits is not None:
                    bump("merge_evaluated")
                    if keys_merge(case["docs"][di]["text"]):
                        bump("merge_documents_with_repeated_key")
                    if any(b != "1" for b in merge_bits):
                        rep.disagreements.append(Disagreement(
                            "validate()==[] but specMergeable is false (required direction)",
                            {"sdl": case["sdl"], "document": case["docs"][di]["text"]}, "accepted", out))
                    else:
                        bump("merge_accepted_by_both")
            elif not iv and mv:
                bump("model_accepts_impl_rejects")
                if merge_bits is not None and all(b == "1" for b in merge_bits):
                    # not required to be 0: validate() has rules that reject harmless documents
                    bump("model_with_merge_rule_accepts_impl_rejects")
            else:
                bump("rejected_by_both")
        for m in meta:
            i = m["i"]
            req = case["requests"][i]
            if not m["valid"] or m["req_error"] or not m["sent"]:
                continue
            document = documents[req["doc"]]
            op = c02.select_operation(document, req["op"])
            if op is None:
                continue
            d1, e1, l1, res, ncalls = c02.run_impl(schema, document, req)
            inp = c02.stored(case, i)
            if d1 is None:
                rep.failures.append(Failure("execute-raises", "execute_sync raised on a validated document", inp, repr(res), "an ExecutionResult", "C13"))
                continue
            rep.evaluations += 1
            bump("executions")
            errs = res.errors or []
            cv = get_variable_values(schema, op.variable_definitions or (), req["vars"])
            coerced = cv.coerced
            vars_sx = "(vars" + "".join(f" ({kk} {G.pyval_sx(v)})" for kk, v in coerced.items()) + ")"
            req_sx = f"(req {docs_sx[req['doc']]} {req['op'] or '-'} {vars_sx} {G.data_sx(c02._guards_plain(req['data']))})"
            resp_j = c02.sx_json(res.data)
            shape_lines.append(f"shape (case {schema_sx} {req_sx} {resp_j})")
            shape_meta.append((case, i, req, errs, d1, e1))
            if req["mode"] == "conforming":
                bump("conforming_runs")
            else:
                bump("hostile_runs")
                if errs:
                    bump("hostile_runs_with_errors")
    outs2 = driver.run(shape_lines) if (driver and shape_lines) else [None] * len(shape_lines)
    for (case, i, req, errs, d1, e1), out in zip(shape_meta, outs2):
        if out is None:
            continue
        if not out.startswith("s "):
            raise fw.InfraError(f"driver: {out[:200]}")
        _, shape_bit, may_null, spec_errs = out.split()[:4]
        inp = c02.stored(case, i)
        attributable = [e for e in errs if REQUEST_ATTRIBUTABLE.match(e.message or "")]
        if may_null == "1":
            bump("null_variable_in_use")
        flagged = False
        if attributable:
            if may_null == "1":
                bump("exempt_null_via_default")
            else:
                flagged = True
                rep.failures.append(Failure(
                    "request-attributable-error/" + error_kind(attributable[0].message),
                    "a validated document with accepted variables produced an error that is attributable to the request, not to the data",
                    inp, [e.message for e in attributable], "only data-attributable errors", "C13-2 blame"))
        if req["mode"] == "conforming":
            if flagged:
                pass  # already reported with its specific fingerprint
            elif errs and not (may_null == "1" and len(attributable) == len(errs)):
                rep.failures.append(Failure(
                    "errors-on-conforming-data", "a validated document executed over conforming data reports errors",
                    inp, [e.message for e in errs], "no errors", "C13-1 soundness"))
            elif not errs:
                bump("conforming_no_errors")
                if shape_bit != "1":
                    rep.failures.append(Failure(
                        "response-shape", "the response does not have the shape the selection set and the runtime types prescribe",
                        inp, d1, "shapeResponse (Gql/Exec/Shape.lean) = true", "C13-1 ShapeOk"))
                else:
                    bump("shape_ok")
                    rep.nontrivial += 1
                if spec_errs != "0":
                    rep.notes.append(f"spec reports {spec_errs} errors on a conforming case (generator?) seed={case.get('seed')} req={i}")
        if len(rep.samples) < 2 and req["mode"] == "conforming" and not errs:
            rep.samples.append({"document": case["docs"][req["doc"]]["text"][:600], "variables": req["vars"], "data": d1[:400]})


def _explore(ctx, n, offset=0):
    fw.use_repo()
    drv = DRIVER if ctx.driver else None
    seeds = list(range(offset, offset + n))
    chunks = fw.chunked(seeds, fw.WORKERS * 3)
    corpus = []
    cdir = fw.VERIF / "corpus" / "C13"
    if cdir.is_dir():
        for p in sorted(cdir.glob("*.json")):
            c = json.loads(p.read_text())
            corpus.append(c.get("input", c))
    reps = fw.pmap(_work, [(c, ctx.seed, drv, corpus if i == 0 else []) for i, c in enumerate(chunks)])
    rep = Report()
    for r in reps:
        rep.merge(r)
    rep.notes = rep.notes[:10]
    rep.rule = (
        "type-directed cases of C02's generator (schema, 1-2 documents incl. ~18% invalid mutants, 3-6 requests with raw "
        "variables and conforming / hostile data); non-trivial = a validated document executed over conforming data "
        "whose response has no errors and the prescribed shape (checked by the Lean shapeResponse)"
    )
    return rep


def explore(ctx) -> Report:
    return _explore(ctx, 500 if ctx.tier == "quick" else 15000)


def search(ctx, rep) -> Report:
    if ctx.driver is None:
        return Report(notes=["model driver unavailable"])
    return _explore(ctx, 2500, offset=10_000_000)


def replay(ctx, payload) -> Report:
    fw.use_repo()
    rep = Report()
    inp = payload["input"]
    if "requests" not in inp:
        # a validation disagreement: {sdl, document}
        from graphql import build_schema, parse, validate

        schema = build_schema(inp["sdl"])
        doc = parse(inp["document"])
        iv = validate(schema, doc) == []
        out = fw.Driver(DRIVER).run([f"valid (case {G.schema_sx_from_sdl(inp['sdl'])} {G.ast_doc_sx(doc)})"])[0]
        rep.evaluations = 1
        if iv and not out.startswith("v 1"):
            rep.disagreements.append(Disagreement("validate()==[] but ValidDoc rejects (required direction)", inp, "accepted", out))
        elif iv and " m" in out and "0" in out.split(" m", 1)[1]:
            rep.disagreements.append(Disagreement("validate()==[] but specMergeable is false (required direction)", inp, "accepted", out))
        return rep
    check_cases([inp], rep, fw.Driver(DRIVER) if ctx.driver else None)
    return rep
