"""C11 — AST traversal visits every node once, in order, and edits without mutating."""
from __future__ import annotations

import copy
import hashlib
import itertools
import json
from pathlib import Path

from tools import c11_extract, c11_gen, fw
from tools.fw import Disagreement, Failure, Report

ID = "C11"
PROPS = "Gql.Props.C11"
DRIVER = "drv_c11"
LEVEL = "proof"
LEVEL_TEXT = (
    "Lean theorems about a crash-faithful model of visit() as the iterative stack machine it is (stack, idx, keys, "
    "edits, path, ancestors, in_array) and of ParallelVisitor (skipping array), for all trees, all visitor_keys maps "
    "and all state-passing visitors, no size bound. visit_no_crash: no sequence of idle/skip/break/remove/replace "
    "decisions on enter or leave - root included - makes any iteration raise. visit_eq_spec / edit_semantics (full, "
    "every visitor, editing included): wherever the documented recursive contract Spec.specVisit is defined, the "
    "machine makes exactly its calls (enter, children in key order, leave, with node/key/parent/path/ancestors; "
    "replacement on enter traversed instead of the original and handed to leave; rebuilt copies handed to leave), "
    "in exactly the contract's number of loop iterations, and returns the documented value (removed list items gone "
    "via the index offset of the edit list, removed single children absent, replaced children replaced, removed root "
    "None, only nodes) - the per-level edit lists are proved to apply to exactly the contract's rebuilt tuples/nodes. "
    "For visitors that never edit additionally: spec_defined, identity (the identical root object), visit_fuel_bound "
    "(<= 2*size iterations), parallel_alone / parallel_singleton (each member of a ParallelVisitor ends in the state "
    "it reaches alone, under any skip/break of the others). keys_complete: the table of node classes regenerated from "
    "ast.py on every run lists exactly the node-valued fields in QUERY_DOCUMENT_KEYS (decide)."
)
LEVEL_NOTE = (
    "Trusted: Lean kernel; hand-written model Gql/Syntax/Visitor.lean (tied to visitor.py by the differential run: "
    "call logs with key/parent/path/ancestors, result trees with object identities, raise/no raise), harness. "
    "All listed theorems are proved in full. Outside the statement by nature: the value returned when BREAK follows an "
    "edit (undocumented; compared against the model only), visitors returning non-node values, non-termination of "
    "visitors that keep replacing nodes by deeper ones (the contract is then undefined, as is visit())."
)
TECHNIQUE = "interactive proof (Lean 4) over an executable model + differential correspondence + spec oracle"
TRUSTED = [
    "hand-written Lean model Gql/Syntax/Visitor.lean of visit()/ParallelVisitor (after repairs F5, F9, F10), "
    "tied to the code by the correspondence run (call log, result tree with identities, raise/no raise)",
    "tools/c11_extract.py reads ast.py with Python's ast module (node classes, annotations, QUERY_DOCUMENT_KEYS)",
    "object identity is modelled by allocation serials; serial 0 = object allocated by visit()",
]
ASSUMPTIONS = [
    "visitors are deterministic functions of their own state and the call arguments; they return None, SKIP, "
    "BREAK, REMOVE or an AST node (other return values are outside the model)",
    "the result of a traversal that is stopped by BREAK after an edit is not documented and not compared "
    "against the contract (it is compared against the model)",
    "AST containers are tuples and fields hold None, a node or a tuple of nodes (what parse() and the "
    "dataclass annotations produce); no node object is its own descendant (Node.idsOK)",
    "document order is the order of QUERY_DOCUMENT_KEYS; that it is the order of the source text is checked on "
    "parsed documents (start offsets) by an oracle, not proved",
]
EXPLANATION = (
    "Theorems: visit_no_crash and visit_eq_spec / edit_semantics (all visitors, editing included), spec_defined / "
    "identity / visit_fuel_bound / parallel_alone for non-editing visitors, keys_complete (generated table). Correspondence: model vs visit() on parsed "
    "documents over all node kinds, programmatic trees and scripted (also parallel) visitors; oracles on the "
    "implementation: Spec.specVisit through the driver (calls, result), input unchanged, identity, reachability of every "
    "node, source order, parallel member vs alone."
)

FUEL = 200000
DEPTH = 400


def extract(repo, lean):
    return c11_extract.extract(Path(repo), Path(lean))


# ----------------------------------------------------------------------------- implementation side


_IMPL = None


def _impl():
    global _IMPL  # noqa: PLW0603
    if _IMPL is None:
        fw.use_repo()
        from graphql.language import ast as A
        from graphql.language import visitor as V

        _IMPL = (A, V)
    return _IMPL


def concrete_classes():
    """class name -> (node-valued keys, scalar field names) for every instantiable node class"""
    import dataclasses

    A, _ = _impl()
    all_cls = [c for c in vars(A).values() if isinstance(c, type) and issubclass(c, A.Node)]
    out = {}
    for cls in all_cls:
        if cls is A.Node or any(o is not cls and issubclass(o, cls) and o.kind != cls.kind for o in all_cls):
            continue  # abstract base classes
        flds = [f.name for f in dataclasses.fields(cls) if f.name != "loc"]
        keys = [k for k in A.QUERY_DOCUMENT_KEYS.get(cls.kind, ()) if k in flds]
        out[cls.__name__] = (keys, [f for f in flds if f not in keys])
    return out


def build_node(d):
    A, _ = _impl()
    cls = getattr(A, d["cls"])
    kw = dict(d.get("scalars", {}))
    for k, v in d.get("fields", {}).items():
        if v is None:
            kw[k] = None
        elif isinstance(v, list):
            kw[k] = tuple(build_node(x) for x in v)
        else:
            kw[k] = build_node(v)
    return cls(**kw)


def build_tree(desc):
    fw.use_repo()
    from graphql.language import parse, parse_value

    if "parse" in desc:
        return parse(desc["parse"], no_location=True, experimental_fragment_arguments=bool(desc.get("fragargs")))
    if "fixture" in desc:
        src = (fw.REPO / "tests" / "fixtures" / desc["fixture"]).read_text()
        return parse(src, no_location=True, experimental_fragment_arguments=bool(desc.get("fragargs")))
    if "coord" in desc:
        from graphql.language.parser import parse_schema_coordinate

        return parse_schema_coordinate(desc["coord"])
    if "value" in desc:
        return parse_value(desc["value"], no_location=True)
    return build_node(desc["node"])


class Ids:
    """object identity -> serial (keeps the objects alive so ids are not reused)"""

    def __init__(self):
        self.map = {}
        self.keep = []

    def add(self, obj, serial):
        if id(obj) not in self.map:
            self.map[id(obj)] = serial
            self.keep.append(obj)

    def get(self, obj):
        return self.map.get(id(obj), 0)


def _children(node, keys_of):
    for k in keys_of(node.kind):
        yield k, getattr(node, k, None)


def number(root, ids, start, qdk):
    """assign serials in document order; returns [(path, kind, serial)]"""
    A, _ = _impl()
    out = []
    counter = [start]

    def go(n, path):
        ids.add(n, counter[0])
        out.append((tuple(path), n.kind, ids.get(n)))
        counter[0] += 1
        for k in qdk.get(n.kind, ()):
            v = getattr(n, k, None)
            if isinstance(v, A.Node):
                go(v, [*path, k])
            elif isinstance(v, tuple):
                for i, c in enumerate(v):
                    if isinstance(c, A.Node):
                        go(c, [*path, k, i])

    go(root, [])
    return out


def payload(node):
    """everything in the node that is not a traversed child, as one token"""
    import dataclasses

    A, _ = _impl()
    keys = A.QUERY_DOCUMENT_KEYS.get(node.kind, ())
    sc = []
    for f in dataclasses.fields(node):
        if f.name == "loc" or f.name in keys:
            continue
        v = getattr(node, f.name, None)
        if isinstance(v, A.Node) or (isinstance(v, tuple) and v and all(isinstance(c, A.Node) for c in v)):
            continue  # a node-valued field QUERY_DOCUMENT_KEYS does not list (reachability oracle)
        sc.append((f.name, repr(v)))
    if not sc:
        return "_"
    return hashlib.md5(repr(sc).encode()).hexdigest()[:6]


def ser(node, ids):
    A, V = _impl()
    if node is V.REMOVE or node is Ellipsis:
        return "<REMOVE>"
    if not isinstance(node, A.Node):
        return "<other>"
    parts = []
    for k in A.QUERY_DOCUMENT_KEYS.get(node.kind, ()):
        v = getattr(node, k, None)
        if v is None:
            parts.append(k + " - ")
        elif isinstance(v, tuple):
            parts.append(k + " [ " + "".join(ser(c, ids) + " " for c in v) + "] ")
        else:
            parts.append(k + " " + ser(v, ids) + " ")
    return "( " + node.kind + " " + str(ids.get(node)) + " " + payload(node) + " " + "".join(parts) + ")"


def show_val(x, ids):
    if x is None:
        return "None"
    if isinstance(x, tuple):
        return "[ " + "".join(ser(c, ids) + " " for c in x) + "]"
    return ser(x, ids)


def show_key(k):
    if k is None:
        return "-"
    if isinstance(k, int):
        return f"i{k}"
    return f"n{k}"


def show_ref(x, ids):
    if isinstance(x, tuple):
        return "[" + ".".join(str(ids.get(c)) for c in x) + "]"
    return f"{x.kind}@{ids.get(x)}"


def dotted(xs):
    return "/".join(xs) if xs else "."


def poly_hash(s):
    h = 7
    for ch in s:
        h = (h * 131 + ord(ch)) % 1000000007
    return h


def show_call(phase, node, key, parent, path, ancestors, ids):
    s = ("E " if phase == "e" else "L ") + show_ref(node, ids) + " " + show_key(key) + " "
    s += ("-" if parent is None else show_ref(parent, ids)) + " " + dotted([show_key(k) for k in path]) + " "
    s += dotted([show_ref(a, ids) for a in ancestors])
    if ids.get(node) == 0:
        s += " =" + str(poly_hash(ser(node, ids)))
    return s


def make_visitor(rules, ids, reps):
    """the scripted visitor of the implementation side; `reps[i]` is the replacement node of rule i"""
    _, V = _impl()

    class Scripted(V.Visitor):
        def __init__(self):
            super().__init__()
            self.calls = 0
            self.log = []
            self.fired = []

        def _on(self, phase, node, key, parent, path, ancestors):
            self.log.append(show_call(phase, node, key, parent, path, ancestors, ids))
            act = None
            for i, r in enumerate(rules):
                if r["phase"] != phase:
                    continue
                sel = r["sel"]
                if sel[0] == "p":
                    ok = list(path) == list(sel[1])
                elif sel[0] == "k":
                    ok = node.kind == sel[1]
                elif sel[0] == "c":
                    ok = self.calls == sel[1]
                elif sel[0] == "s":
                    ok = ids.get(node) == sel[1]
                else:
                    ok = True
                if ok:
                    act = (i, r["act"])
                    break
            self.calls += 1
            if act is None:
                return None
            i, a = act
            if a != "idle":
                self.fired.append((phase, a if isinstance(a, str) else "rep", len(path) == 0))
            if a == "idle":
                return None
            if a == "skip":
                return V.SKIP
            if a == "brk":
                return V.BREAK
            if a == "rm":
                return V.REMOVE
            return reps[i]

        def enter(self, node, key, parent, path, ancestors):
            return self._on("e", node, key, parent, path, ancestors)

        def leave(self, node, key, parent, path, ancestors):
            return self._on("l", node, key, parent, path, ancestors)

    return Scripted()


def rules_line(rules, rep_sers):
    out = ["{"]
    for i, r in enumerate(rules):
        out.append(r["phase"])
        sel = r["sel"]
        if sel[0] == "p":
            out += ["p", str(len(sel[1]))] + [show_key(k) for k in sel[1]]
        elif sel[0] == "any":
            out.append("any")
        else:
            out += [sel[0], str(sel[1])]
        a = r["act"]
        out.append(a if isinstance(a, str) else "rep " + rep_sers[i])
    out.append("}")
    return " ".join(out)


def is_editing(rules):
    return any(r["act"] in ("rm",) or isinstance(r["act"], dict) for r in rules)


class Prepared:
    """one case made concrete on the implementation side"""

    def __init__(self, case):
        A, V = _impl()
        self.case = case
        self.root = build_tree(case["tree"])
        self.ids = Ids()
        self.positions = number(self.root, self.ids, 1, A.QUERY_DOCUMENT_KEYS)
        self.members = case["members"]
        self.parallel = bool(case.get("parallel"))
        self.reps = []
        self.rep_sers = []
        base = 100000
        for rules in self.members:
            reps, sers = {}, {}
            for i, r in enumerate(rules):
                if isinstance(r["act"], dict):
                    n = build_tree(r["act"]["rep"])
                    number(n, self.ids, base, A.QUERY_DOCUMENT_KEYS)
                    base += 1000
                    reps[i] = n
                    sers[i] = ser(n, self.ids)
            self.reps.append(reps)
            self.rep_sers.append(sers)
        self.tree_ser = ser(self.root, self.ids)

    def line(self):
        m = " ".join(rules_line(r, s) for r, s in zip(self.members, self.rep_sers))
        return f"visit {FUEL} {DEPTH} {1 if self.parallel else 0} {len(self.members)} {m} {self.tree_ser}"

    def visitors(self):
        return [make_visitor(r, self.ids, reps) for r, reps in zip(self.members, self.reps)]

    def run(self, members=None):
        """-> (outcome string, result object or None, visitors)"""
        _, V = _impl()
        vs = self.visitors() if members is None else members
        top = V.ParallelVisitor(vs) if self.parallel else vs[0]
        try:
            res = V.visit(self.root, top)
        except Exception as e:  # noqa: BLE001
            return f"crash {type(e).__name__}", e, vs
        out = "ok " + show_val(res, self.ids) + "".join(" # " + ";".join(v.log) for v in vs)
        return out, res, vs


def reachable(root):
    """all node objects reachable through node-valued dataclass fields (by inspection of the values)"""
    import dataclasses

    A, _ = _impl()
    seen = []
    todo = [root]
    while todo:
        n = todo.pop()
        seen.append(n)
        for f in dataclasses.fields(n):
            if f.name == "loc":
                continue
            v = getattr(n, f.name, None)
            if isinstance(v, A.Node):
                todo.append(v)
            elif isinstance(v, tuple):
                todo.extend(c for c in v if isinstance(c, A.Node))
    return seen


def source_order_violation(desc):
    """parse with locations and check that a plain traversal enters nodes with non-decreasing
    start offsets (depth-first *document* order), each before any node that starts later"""
    _, V = _impl()
    from graphql.language import parse

    try:
        doc = parse(desc["parse"], experimental_fragment_arguments=bool(desc.get("fragargs")))
    except Exception:  # noqa: BLE001
        return None
    starts = []

    class Rec(V.Visitor):
        def enter(self, node, *_):
            if node.loc is not None:
                starts.append((node.loc.start, node.kind))

    try:
        V.visit(doc, Rec())
    except Exception:  # noqa: BLE001  (reported by the other oracles)
        return None
    for a, b in zip(starts, starts[1:]):
        if b[0] < a[0]:
            return [list(a), list(b)]
    return None


def _spec_parts(s):
    """'ok <result> @<iters> # log # log' -> (result, iters, [logs])"""
    head, *logs = s.split(" # ")
    if not head.startswith("ok "):
        return None
    i = head.rindex(" @")
    return head[3:i], int(head[i + 2 :]), logs


def _work(args):
    cases, drv = args
    A, V = _impl()
    rep = Report()
    driver = fw.Driver(drv) if drv else None
    prepared = []
    st = rep.stats
    for case in cases:
        try:
            p = Prepared(case)
        except Exception as e:  # noqa: BLE001  (generator produced something the parser rejects)
            st["unbuildable"] = st.get("unbuildable", 0) + 1
            rep.notes.append(f"case could not be built: {type(e).__name__}: {str(e)[:80]}") if st["unbuildable"] <= 2 else None
            continue
        prepared.append(p)
    outs = driver.run([p.line() for p in prepared]) if driver else [None] * len(prepared)
    seen = set()
    for p, out in zip(prepared, outs):
        case = p.case
        rep.evaluations += 1
        snap_before = p.tree_ser
        deep = copy.deepcopy(p.root)
        impl, res, vs = p.run()
        editing = any(is_editing(r) for r in p.members)
        fired = [f for v in vs for f in v.fired]
        n_nodes = len(p.positions)
        # ---- statistics
        b = "1-5" if n_nodes <= 5 else "6-15" if n_nodes <= 15 else "16-40" if n_nodes <= 40 else "41+"
        st[f"nodes_{b}"] = st.get(f"nodes_{b}", 0) + 1
        for ph, a, at_root in fired:
            st[f"fired_{ph}_{a}"] = st.get(f"fired_{ph}_{a}", 0) + 1
            if at_root:
                st["fired_on_root"] = st.get("fired_on_root", 0) + 1
        st["parallel_cases"] = st.get("parallel_cases", 0) + (1 if p.parallel else 0)
        st["editing_cases"] = st.get("editing_cases", 0) + (1 if editing else 0)
        st["trivial_cases"] = st.get("trivial_cases", 0) + (0 if fired else 1)
        for _, k, _ in p.positions:
            st.setdefault("_kinds", set()).add(k)
        key = hashlib.md5(p.line().encode()).hexdigest()
        if fired and key not in seen:
            seen.add(key)
            rep.nontrivial += 1
        if len(rep.samples) < 3 and fired:
            rep.samples.append({"case": case, "impl": impl[:300]})
        # ---- property oracles that need no model
        if impl.startswith("crash"):
            where = "root" if any(f[2] for f in fired) else "inner"
            rep.failures.append(Failure(f"visit-raises-{type(res).__name__}-{where}", "visit() raises for a visitor decision", case, f"{type(res).__name__}: {res}", "a result", "C11-1 visit_no_crash"))
        if ser(p.root, p.ids) != snap_before or p.root != deep:
            rep.failures.append(Failure("input-mutated", "visit() modified its input tree", case, ser(p.root, p.ids)[:300], snap_before[:300], "C11-3 input_unchanged"))
        if not impl.startswith("crash"):
            if not editing and res is not p.root:
                rep.failures.append(Failure("identity-lost", "a visitor that edits nothing does not get the identical tree object back", case, show_val(res, p.ids)[:300], "the input object", "C11-3 identity"))
            if "<REMOVE>" in impl.split(" # ")[0]:
                rep.failures.append(Failure("remove-sentinel-in-result", "the result tree holds the REMOVE sentinel instead of an absent child", case, impl.split(" # ")[0][:300], "only nodes / None", "C11-4 edit_semantics"))
        if not fired and not impl.startswith("crash"):
            # the plain traversal enters every node reachable through node-valued fields exactly once
            entered = [ln.split(" ")[1] for ln in vs[0].log if ln.startswith("E ")]
            want = sorted(show_ref(n, p.ids) for n in reachable(p.root))
            if sorted(entered) != want:
                missing = sorted(set(want) - set(entered))
                rep.failures.append(Failure("node-not-entered-once", "a reachable node is not entered exactly once", case, {"entered": len(entered), "missing_or_extra": missing[:5]}, len(want), "C11-2/C11-6 keys_complete"))
        if "parse" in case["tree"] and rep.evaluations % 3 == 0:
            bad = source_order_violation(case["tree"])
            st["source_order_checked"] = st.get("source_order_checked", 0) + 1
            if bad:
                rep.failures.append(Failure("not-document-order", "nodes are not entered in the order of their position in the source text", {"tree": case["tree"], "members": [[]], "parallel": False}, bad, "non-decreasing start offsets", "C11-2 document order (metamorphic: source offsets of the parsed document)"))
        if p.parallel and not editing and not impl.startswith("crash"):
            for i in range(len(p.members)):
                q = Prepared({**case, "members": [p.members[i]], "parallel": False})
                alone, _, avs = q.run()
                if not alone.startswith("crash") and avs[0].log != vs[i].log:
                    rep.failures.append(Failure("parallel-member-differs-from-alone", "a member of a ParallelVisitor sees a different call sequence than alone", case, {"member": i, "parallel": vs[i].log[-3:], "alone": avs[0].log[-3:]}, None, "C11-5 parallel_alone"))
                    break
        # ---- model correspondence and the Lean contract as oracle
        if out is None:
            continue
        parts = out.split(" | ")
        if len(parts) < 2 or not parts[0].startswith("M ") or not parts[1].startswith("S "):
            raise fw.InfraError(f"driver output not understood: {out[:200]}")
        model = parts[0][2:]
        if model != impl:
            rep.disagreements.append(Disagreement("visit", case, impl[:2000], model[:2000]))
        spec = _spec_parts(parts[1][2:])
        if spec is None:
            st["spec_depth_exceeded"] = st.get("spec_depth_exceeded", 0) + 1
            continue
        if impl.startswith("crash"):
            continue
        s_res, s_iters, s_logs = spec
        i_head, *i_logs = impl.split(" # ")
        if i_logs != s_logs:
            k = next((j for j, (a, c) in enumerate(zip(i_logs, s_logs)) if a != c), 0)
            a, c = i_logs[k].split(";"), s_logs[k].split(";")
            j = next((j for j, (x, y) in enumerate(zip(a, c)) if x != y), min(len(a), len(c)))
            fp = "leave-skip-drops-edits" if editing and any(f[0] == "l" and f[1] == "skip" for f in fired) else "calls-differ-from-contract"
            rep.failures.append(Failure(fp, "the enter/leave call sequence differs from the documented traversal", case, a[j : j + 2], c[j : j + 2], "C11-2 visit_eq_spec (Spec.specVisit through the driver)"))
        elif s_res != "?" and i_head[3:] != s_res:
            fp = "leave-skip-drops-edits" if any(f[0] == "l" and f[1] == "skip" for f in fired) else "result-differs-from-contract"
            rep.failures.append(Failure(fp, "the result tree differs from the documented effect of the edits", case, i_head[3:][:600], s_res[:600], "C11-4 edit_semantics (Spec.specVisit through the driver)"))
        if s_res == "?":
            st["result_undocumented_break_after_edit"] = st.get("result_undocumented_break_after_edit", 0) + 1
        if p.parallel and not editing:
            for i, a in enumerate(parts[2:]):
                sp = _spec_parts(a[2:])
                if sp and i < len(i_logs) and sp[2] != [str(poly_hash(i_logs[i]))]:
                    rep.failures.append(Failure("parallel-member-differs-from-alone", "a member of a ParallelVisitor sees a different call sequence than the contract gives it alone", case, {"member": i, "parallel": i_logs[i][-200:]}, "hash " + (sp[2][0] if sp[2] else "-"), "C11-5 parallel_alone (Spec.specVisit through the driver)"))
                    break
    if "_kinds" in st:
        st["_kinds"] = sorted(st["_kinds"])
    return rep


# ----------------------------------------------------------------------------- case generation


def _positions_of(desc):
    A, _ = _impl()
    root = build_tree(desc)
    ids = Ids()
    return number(root, ids, 1, A.QUERY_DOCUMENT_KEYS)


def gen_cases(rng, n, classes):
    cases = []
    while len(cases) < n:
        r = rng.random()
        if r < 0.75:
            desc = c11_gen.gen_document_desc(rng)
        else:
            desc = {"node": c11_gen.gen_node_desc(rng, classes, rng.randint(1, 3), [rng.randint(1, 14)])}
        try:
            pos = _positions_of(desc)
        except Exception:  # noqa: BLE001, S112  (random source the parser rejects)
            continue
        kinds = sorted({k for _, k, _ in pos})
        mode = rng.random()
        if mode < 0.45:
            members, par = [c11_gen.gen_rules(rng, pos, kinds, classes, editing=True)], False
        elif mode < 0.6:
            members, par = [c11_gen.gen_rules(rng, pos, kinds, classes, editing=False)], False
        elif mode < 0.9:
            m = rng.randint(1, 4)
            members, par = [c11_gen.gen_rules(rng, pos, kinds, classes, editing=False, max_rules=3) for _ in range(m)], True
        else:
            m = rng.randint(1, 3)
            members, par = [c11_gen.gen_rules(rng, pos, kinds, classes, editing=True, max_rules=2) for _ in range(m)], True
        cases.append({"tree": desc, "members": members, "parallel": par})
    return cases


SMALL_TREES = [
    {"parse": "{ a }"},
    {"parse": "{ a: b }"},
    {"parse": "scalar a @b"},
    {"parse": "type T"},
    {"node": {"cls": "FieldNode", "scalars": {}, "fields": {"alias": {"cls": "NameNode", "scalars": {"value": "x"}, "fields": {}}, "name": {"cls": "NameNode", "scalars": {"value": "y"}, "fields": {}}, "arguments": [], "directives": None, "selection_set": {"cls": "SelectionSetNode", "scalars": {}, "fields": {"selections": [{"cls": "FieldNode", "scalars": {}, "fields": {"name": {"cls": "NameNode", "scalars": {"value": "z"}, "fields": {}}}}]}}}}},
]
LEAF = {"node": {"cls": "NameNode", "scalars": {"value": "new"}, "fields": {}}}
PAIR = {"node": {"cls": "VariableNode", "scalars": {}, "fields": {"name": {"cls": "NameNode", "scalars": {"value": "v"}, "fields": {}}}}}


def exhaustive_cases(max_decisions, with_parallel):
    """every script of <= max_decisions path-addressed decisions on the small trees"""
    cases = []
    for desc in SMALL_TREES:
        pos = _positions_of(desc)
        slots = [(list(p), ph) for p, _, _ in pos for ph in ("e", "l")]
        acts = ["skip", "brk", "rm", {"rep": LEAF}, {"rep": PAIR}]
        cases.append({"tree": desc, "members": [[]], "parallel": False})
        for k in range(1, max_decisions + 1):
            for combo in itertools.combinations(range(len(slots)), k):
                for choice in itertools.product(acts, repeat=k):
                    rules = [{"phase": slots[s][1], "sel": ["p", slots[s][0]], "act": a} for s, a in zip(combo, choice)]
                    cases.append({"tree": desc, "members": [rules], "parallel": False})
                    if with_parallel and k == 2:
                        cases.append({"tree": desc, "members": [[rules[0]], [rules[1]]], "parallel": True})
                        cases.append({"tree": desc, "members": [[rules[1]], [rules[0]]], "parallel": True})
    return cases


def load_corpus():
    d = fw.VERIF / "corpus" / "C11"
    out = []
    for f in sorted(d.glob("*.json")):
        out.append(json.loads(f.read_text())["case"])
    return out


def _run(ctx, cases):
    chunks = fw.chunked(cases, fw.WORKERS * 3)
    drv = DRIVER if ctx.driver else None
    reps = fw.pmap(_work, [(c, drv) for c in chunks])
    rep = Report()
    kinds = set()
    for r in reps:
        kinds |= set(r.stats.pop("_kinds", []))
        rep.merge(r)
    # present the smallest failing input / disagreement first
    rep.failures.sort(key=lambda f: len(json.dumps(f.input, default=repr)))
    rep.disagreements.sort(key=lambda d: len(json.dumps(d.input, default=repr)))
    rep.stats["node_kinds_covered"] = len(kinds)
    rep.stats["node_kinds_list"] = ",".join(sorted(kinds))
    return rep


def explore(ctx) -> Report:
    fw.use_repo()
    classes = concrete_classes()
    rng = ctx.sub_rng("c11")
    quick = ctx.tier == "quick"
    cases = load_corpus()
    n_corpus = len(cases)
    big = [{"tree": {"fixture": f}, "members": [[]], "parallel": False} for f in ("kitchen_sink.graphql", "schema_kitchen_sink.graphql")]
    for b in big:
        pos = _positions_of(b["tree"])
        kinds = sorted({k for _, k, _ in pos})
        cases.append(b)
        for _ in range(3 if quick else 30):
            cases.append({"tree": b["tree"], "members": [c11_gen.gen_rules(rng, pos, kinds, classes, editing=True)], "parallel": False})
            cases.append({"tree": b["tree"], "members": [c11_gen.gen_rules(rng, pos, kinds, classes, editing=False, max_rules=3) for _ in range(3)], "parallel": True})
    ex = exhaustive_cases(2 if quick else 3, with_parallel=True)
    if quick:
        # quick: all single decisions, and a seeded 15% of the pairs
        ex = [c for c in ex if sum(len(m) for m in c["members"]) <= 1 or rng.random() < 0.15]
    cases += ex
    n_random = 1500 if quick else 30000
    if ctx.escalate:
        n_random *= 2
    cases += gen_cases(rng, n_random, classes)
    rep = _run(ctx, cases)
    rep.rule = (
        f"{n_corpus} corpus cases (F5/F9/F10 witnesses first); the two kitchen-sink fixtures with seeded scripts; every script of "
        f"<= {2 if quick else 3} path-addressed decisions (skip/break/remove/replace-by-leaf/replace-by-subtree, on enter or leave, root included) "
        f"on {len(SMALL_TREES)} trees of <= 6 nodes ({'all singles + a seeded 15% of the pairs' if quick else 'exhaustive'}), pairs also split over two parallel members; "
        f"{n_random} seeded random cases: parsed generated documents (executable, SDL, mixed, coordinates, values) and programmatic trees x scripted visitors "
        "(rules selected by path / serial / call count / kind) x single or ParallelVisitor(1-4 members). non-trivial = at least one non-idle decision fired; "
        "distinct = distinct (tree, scripts) line"
    )
    rep.exhaustive = not quick
    rep.stats["cases"] = len(cases)
    rep.stats["exhaustive_small_tree_cases"] = len(ex)
    return rep


def search(ctx, rep) -> Report:
    """the oracles already run on every explored case; widen the random stream once"""
    fw.use_repo()
    classes = concrete_classes()
    rng = ctx.sub_rng("c11-search")
    cases = exhaustive_cases(2, with_parallel=True) + gen_cases(rng, 4000, classes)
    r = _run(ctx, cases)
    r.notes.append("search: all <=2-decision scripts on the small trees + 4000 further random cases")
    return r


def replay(ctx, payload) -> Report:
    fw.use_repo()
    case = payload["input"] if "input" in payload else payload["case"]
    return _work(([case], DRIVER if ctx.driver else None))
