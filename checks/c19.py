"""C19 — schema transformations preserve meaning: extend equals build, sort only reorders."""
from __future__ import annotations

import copy
import os
import random

from tools import c17_gen as g
from tools import fw
from tools.c17_extract import extract  # noqa: F401
from tools.fw import Disagreement, Failure, Report

ID = "C19"
PROPS = "Gql.Props.C19"
DRIVER = "drv_c19"
LEVEL = "proof"
LEVEL_TEXT = (
    "Lean theorems on schema content (same model as C17), no size bounds: comparing a well-formed schema with itself "
    "reports no change (changes_refl); a sorted schema differs from the original by no reported change, sorting is "
    "idempotent, keeps roots/description and permutes every list into natural order (sort_only_reorders, sort_idem, "
    "sort_perm, sort_sorted); extending with A and then with B equals extending once with A ++ B for every B satisfying "
    "ValidExt (extend_extend); extend(build(A), B) = build(A ++ B) for every base document, with or without a schema definition, "
    "and every extension document satisfying ValidExt and the decidable RootsStable (extend_eq_build; extend_eq_build_partial and "
    "extend_eq_build_noschema are its two halves), and RootsStable is exact: when build(A ++ B) succeeds the equality holds if and "
    "only if RootsStable A B (extend_eq_build_iff), and in general iff RootsStable A B or build(A ++ B) fails — then extend fails identically "
    "(extend_eq_build_exact); the statement without RootsStable (extend_eq_build_full) is refuted in Lean by "
    "A = `type T {a: Int}`, B = `type Query {q: Int}` (extend_eq_build_full_false, replayed on the implementation: observation O2); "
    "together with the per-kind merge laws "
    "(extendType_append, buildNamedType_append, extendDirective_append, collect_append); a document without type-system "
    "definitions returns the schema unchanged (extend_noop); a reported change implies different printed definitions "
    "(change_real, via C17's injectivity of printing). The model is tied to extend_schema / lexicographic_sort_schema / "
    "find_schema_changes / natural_comparison_key by a correspondence run; the relations of the property are evaluated "
    "directly on the implementation for every generated (A, B) pair, schema and mutant."
)
LEVEL_NOTE = (
    "Theorems are about the definition-AST level model; SDL text <-> definitions is C08's layer, exercised here by the "
    "correspondence only. Object identity ('returns the original', 'original unchanged') is an implementation-side oracle "
    "(`is`, ids of the type objects) plus the model's `extendReturnsSame` flag. Change descriptions are compared as "
    "(kind, names mentioned first), not as text. SDL validation of extensions is not modelled: validExt states what the "
    "theorem needs; the generator only emits documents the implementation's validation accepts."
)
TECHNIQUE = "Lean 4 proof about an executable model + differential correspondence + metamorphic oracles on the implementation"
TRUSTED = [
    "hand-written Lean models Gql/Types/SchemaAst.lean (extendCore = extend_schema_args + map_schema_config), SchemaRoots.lean "
    "(rootsStable: the decidable hypothesis of extend_eq_build), Sort.lean "
    "(lexicographic_sort_schema, natural_comparison_key), Diff.lean (find_schema_changes), tied by the correspondence run",
    "tools/c17_gen.py: generators of base schemas, extension documents and single-edit mutants; content extraction; codec",
]
ASSUMPTIONS = [
    "valid inputs: validate_schema(build(A)) == [], extend_schema accepts B (its SDL validation) and the result validates",
    "RootsStable (Lean, decidable, hypothesis of extend_eq_build; evaluated by the driver op `rootsstable`): A has a schema definition, or "
    "for each of Query/Mutation/Subscription: B defines a type of that name only if A does, unless B's `extend schema` names exactly that "
    "type for the operation; and an `extend schema` naming another type requires that neither document defines the conventional one "
    "(build_ast_schema infers roots by name for a *document*, extend_schema does not — observation O2 in the report). The implementation's "
    "validate_sdl accepts documents outside RootsStable; on those the check compares model and implementation (they agree: the roots differ "
    "on both) and asserts equality of everything except the roots, never extend == build",
    "extensions of built-in scalars are valid against a schema but make A+B an invalid document on its own; for those "
    "documents only extend_schema's own clauses are checked (original unchanged, expected content), not equality with build(A+B)",
    "extensions of *specified* directives (experimental syntax) are honoured by extend_schema and ignored by "
    "build_ast_schema; both are outside the printed content and outside find_schema_changes, so they are compared "
    "only through the 'original / globals unchanged' oracle (observation O3 in the report)",
    "names are ASCII (GraphQL names), so \\d of natural_comparison_key is 0-9",
    "change descriptions are compared by kind and by the names they mention first, not by wording",
]
EXPLANATION = (
    "Theorems: changes_refl, sort_only_reorders, sort_idem, sort_perm, sort_sorted, extend_noop, extend_extend, "
    "extend_eq_build (+ its halves extend_eq_build_partial / extend_eq_build_noschema, the exact characterisations extend_eq_build_iff / extend_eq_build_exact, and "
    "extend_eq_build_full_false refuting the statement without RootsStable), per-kind merge laws, collect_append, change_real. "
    "Correspondence: model extend/build/sort/changes/natural order and the predicate RootsStable vs the implementation, on pairs on both "
    "sides of RootsStable. Oracles: extend == build(A+B) (for root-stable B) in "
    "text, content and changes; original untouched (deep snapshot of every attribute of every type and directive incl. the "
    "specified ones, object identities, introspection result, and the library's global specified_directives / "
    "specified_scalar_types / introspection_types before and after each extend and each sort); no-op returns the same object; sort reports "
    "no change, is idempotent and keeps the content as multisets; self-comparison is empty; every reported change between a "
    "schema and a single-edit mutant comes with different printed forms of a mentioned type/directive."
)

CORPUS_DIR = fw.VERIF / "corpus" / "C19"
ROOT_BASE = 10_000_000  # case indices from here on are root-stability cases (run_root_case)
NOOP_DOCS = ["{ a }", "query Q { a { b } }", "mutation M { x } subscription S { y }"]


def changes_of(a, b):
    from graphql.utilities import find_schema_changes

    return [(c.type.name, c.description) for c in find_schema_changes(a, b)]


def canon_ir(ir):
    """Content up to order (for 'sorting changes only ordering')."""

    def cv(v):
        if v is None:
            return None
        if v[0] == "list":
            return ["list", [cv(x) for x in v[1]]]
        if v[0] == "obj":
            return ["obj", sorted(([n, cv(x)] for n, x in v[1]), key=lambda p: p[0])]
        return v

    def ca(a):
        return dict(a, default=cv(a["default"]))

    def key(x):
        return x["name"]

    out = copy.deepcopy(ir)
    for t in out["types"]:
        if t["kind"] in ("object", "interface"):
            t["interfaces"] = sorted(t["interfaces"])
            t["fields"] = sorted((dict(f, args=sorted(map(ca, f["args"]), key=key)) for f in t["fields"]), key=key)
        elif t["kind"] == "union":
            t["members"] = sorted(t["members"])
        elif t["kind"] == "enum":
            t["values"] = sorted(t["values"], key=key)
        elif t["kind"] == "input":
            t["fields"] = sorted(map(ca, t["fields"]), key=key)
    out["types"] = sorted(out["types"], key=key)
    for d in out["directives"]:
        d["args"] = sorted(map(ca, d["args"]), key=key)
        d["locations"] = sorted(d["locations"])
    out["directives"] = sorted(out["directives"], key=key)
    return out


def canon_defaults(ir):
    """Object-valued default literals with their fields in name order (a programmatic default is
    printed in the input type's field order, which sorting changes)."""
    c = canon_ir(ir)
    order_t = {t["name"]: i for i, t in enumerate(ir["types"])}
    # keep the *orders* of ir, take the canonical default values
    out = copy.deepcopy(ir)
    cm = {t["name"]: t for t in c["types"]}

    def fix(args, cargs):
        cmap = {a["name"]: a for a in cargs}
        for a in args:
            a["default"] = cmap[a["name"]]["default"]

    for t in out["types"]:
        ct = cm[t["name"]]
        if t["kind"] in ("object", "interface"):
            cf = {f["name"]: f for f in ct["fields"]}
            for f in t["fields"]:
                fix(f["args"], cf[f["name"]]["args"])
        elif t["kind"] == "input":
            fix(t["fields"], ct["fields"])
    cd = {d["name"]: d for d in c["directives"]}
    for d in out["directives"]:
        fix(d["args"], cd[d["name"]]["args"])
    del order_t
    return out


def universe_of(*irs):
    names = set(g.STD_SCALARS) | {"Query", "Mutation", "Subscription"}
    for ir in irs:
        for t in ir["types"]:
            names.add(t["name"])
            for f in t.get("fields", []):
                names.add(f["name"])
                for a in f.get("args", []):
                    names.add(a["name"])
            for v in t.get("values", []):
                names.add(v["name"])
        for d in ir["directives"]:
            names.add(d["name"])
            for a in d["args"]:
                names.add(a["name"])
    return names


def canon_changes_impl(changes, universe):
    out = []
    for kind, desc in changes:
        toks = [t for t in g.NAME_RE.findall(desc) if t in universe]
        out.append((kind, toks))
    return _order(out)


def canon_changes_model(line):
    """`( ( KIND [ cps ] [ cps ] ) ( KIND ... ) )` -> [(kind, [names])]"""
    toks = line.split()
    out = []
    i = 1  # skip the outer "("
    while i < len(toks) - 1:
        assert toks[i] == "(", line[:200]
        kind = toks[i + 1]
        i += 2
        names = []
        while toks[i] != ")":
            assert toks[i] == "[", line[:200]
            j = toks.index("]", i)
            names.append("".join(chr(int(x)) for x in toks[i + 1 : j]))
            i = j + 1
        i += 1
        out.append((kind, names))
    return _order(out)


def _order(chs):
    # TYPE_ADDED / TYPE_REMOVED: order up to the position of the specified scalars in the type map
    def k(c):
        return (c[0], tuple(c[1][:1]) if c[0] in ("TYPE_ADDED", "TYPE_REMOVED") else ())

    return sorted(chs, key=k)


def same_changes(impl, model):
    if len(impl) != len(model):
        return False
    for (ki, ti), (km, pm) in zip(impl, model):
        if ki != km or sorted(ti[: len(pm)]) != sorted(pm):
            return False
    return True


def printed_units(schema):
    """name -> printed form of each type / directive (None-able), for localising changes."""
    import graphql as G
    from graphql.utilities.print_schema import print_directive, print_type

    out = {}
    for n, t in schema.type_map.items():
        if not G.is_introspection_type(t):
            out[n] = print_type(t)
    for d in schema.directives:
        out["@" + d.name] = print_directive(d)
    return out


# ----------------------------------------------------------------------------- deep snapshots ("unchanged")


def _default_snap(a):
    from graphql.language import print_ast
    from graphql.pyutils import Undefined

    d = getattr(a, "default", None)
    dv = getattr(a, "default_value", Undefined)
    out = []
    if d is not None:
        out.append(("default", id(d), repr(d.value), print_ast(d.literal) if d.literal is not None else None))
    if dv is not Undefined:
        out.append(("default_value", repr(dv)))
    return tuple(out)


def _arg_snap(name, a):
    return (name, id(a), str(a.type), id(a.type), a.description, a.deprecation_reason, _default_snap(a),
            getattr(a, "out_name", None), id(a.ast_node), tuple(sorted(map(str, a.extensions))))


def directive_snap(d):
    return ("@" + d.name, id(d), d.description, d.deprecation_reason, bool(d.is_repeatable),
            tuple(loc.name for loc in d.locations), tuple(_arg_snap(n, a) for n, a in d.args.items()),
            id(d.ast_node), tuple(id(n) for n in d.extension_ast_nodes), tuple(sorted(map(str, d.extensions))))


def type_snap(t):
    import graphql as G

    head = (t.name, id(t), type(t).__name__, t.description, id(t.ast_node),
            tuple(id(n) for n in t.extension_ast_nodes), tuple(sorted(map(str, t.extensions))))
    if G.is_scalar_type(t):
        body = (t.specified_by_url,)
    elif G.is_object_type(t) or G.is_interface_type(t):
        body = (
            id(t.fields),
            tuple((n, id(f), str(f.type), id(f.type), f.description, f.deprecation_reason, id(f.ast_node),
                   tuple(_arg_snap(an, a) for an, a in f.args.items())) for n, f in t.fields.items()),
            tuple((i.name, id(i)) for i in t.interfaces),
        )
    elif G.is_union_type(t):
        body = (tuple((m.name, id(m)) for m in t.types),)
    elif G.is_enum_type(t):
        body = (tuple((n, id(v), repr(v.value), v.description, v.deprecation_reason, id(v.ast_node)) for n, v in t.values.items()),)
    else:
        body = (id(t.fields), tuple(_arg_snap(n, a) for n, a in t.fields.items()), bool(t.is_one_of))
    return head + body


def schema_snap(schema):
    """Every attribute of the schema, of all its types and of all its directives (the specified
    ones included), with object identities — what 'the original is left unchanged' means."""
    return {
        "schema": (schema.description, id(schema.query_type), id(schema.mutation_type), id(schema.subscription_type),
                   id(schema.ast_node), tuple(id(n) for n in schema.extension_ast_nodes), tuple(schema.type_map),
                   tuple(id(d) for d in schema.directives)),
        "directives": tuple(directive_snap(d) for d in schema.directives),
        "types": tuple(type_snap(t) for t in schema.type_map.values()),
    }


def globals_snap():
    from graphql.type import introspection_types, specified_directives, specified_scalar_types

    return {
        "specified_directives": tuple(directive_snap(d) for d in specified_directives),
        "specified_scalar_types": tuple(type_snap(t) for t in specified_scalar_types.values()),
        "introspection_types": tuple(type_snap(t) for t in introspection_types.values()),
    }


def introspection_of(schema):
    from graphql.utilities import introspection_from_schema

    try:
        return introspection_from_schema(schema)
    except Exception as e:  # noqa: BLE001
        return f"raises {type(e).__name__}"


def snap_diff(before, after):
    """(section, name) of the first difference between two snapshots, or None."""
    for key in before:
        if before[key] == after[key]:
            continue
        b, a = before[key], after[key]
        if isinstance(b, tuple) and isinstance(a, tuple) and len(a) == len(b) and key != "schema":
            for x, y in zip(b, a):
                if x != y:
                    attr = next((i for i, (p, r) in enumerate(zip(x, y)) if p != r), -1)
                    return key, f"{x[0]}[{attr}]"
        return key, "*"
    return None


class Unchanged:
    """Snapshot of a schema and of the library's global type-system objects around an operation."""

    def __init__(self, schema, with_introspection=True):
        self.schema = schema
        self.snap = schema_snap(schema)
        self.glob = globals_snap()
        self.intro = introspection_of(schema) if with_introspection else None

    def check(self, rep, case, op, source):
        d = snap_diff(self.snap, schema_snap(self.schema))
        if d:
            rep.failures.append(Failure(f"{op}-mutates-original-{d[0]}", f"{op} changed the original schema object: {d[0]} {d[1]}", case, list(d), "unchanged", source))
        elif self.intro is not None and introspection_of(self.schema) != self.intro:
            rep.failures.append(Failure(f"{op}-mutates-original-introspection", f"{op} changed the introspection result of the original schema", case, None, "unchanged", source))
        gd = snap_diff(self.glob, globals_snap())
        if gd:
            rep.failures.append(Failure(f"{op}-mutates-global-{gd[0]}", f"{op} changed the library's global {gd[0]}: {gd[1]}", case, list(gd), "unchanged", source))


# ----------------------------------------------------------------------------- checks on one schema


def check_sort_and_self(rep, schema, case, lines, meta, universe):
    import graphql as G
    from graphql.utilities import lexicographic_sort_schema

    rep.evaluations += 1
    ch = changes_of(schema, schema)
    if ch:
        rep.failures.append(Failure("self-comparison-" + ch[0][0], "find_schema_changes(s, s) is not empty", case, ch[:5], [], "C19 changes_refl"))
    sir = g.schema_ir(schema)
    text = G.print_schema(schema)
    guard = Unchanged(schema, with_introspection=False)
    try:
        ss = lexicographic_sort_schema(schema)
    except Exception as e:  # noqa: BLE001
        rep.failures.append(Failure("sort-raises", "lexicographic_sort_schema raises", case, f"{type(e).__name__}: {e}"[:300], "a schema", "C19 sort"))
        return
    c1, c2 = changes_of(schema, ss), changes_of(ss, schema)
    if c1 or c2:
        rep.failures.append(Failure("sort-changes-" + (c1 + c2)[0][0], "differences are detected between a schema and its sorted copy", case, (c1 + c2)[:5], [], "C19 sort_only_reorders"))
    ssir = g.schema_ir(ss)
    if canon_ir(ssir) != canon_ir(sir) or any(ssir[k] != sir[k] for k in ("desc", "query", "mutation", "subscription")):
        rep.failures.append(Failure("sort-changes-content", "sorting changed more than the order", case, None, None, "C19 sort_only_reorders"))
    if G.print_schema(schema) != text:
        rep.failures.append(Failure("sort-mutates-original", "sorting changed the original schema", case, None, None, "C19 sort"))
    guard.check(rep, case, "sort", "C19 sort leaves the original unchanged")
    t1 = G.print_schema(ss)
    t2 = G.print_schema(lexicographic_sort_schema(ss))
    if t1 != t2:
        rep.failures.append(Failure("sort-not-idempotent", "sorting twice differs from sorting once", case, t2[:600], t1[:600], "C19 sort_idem"))
    # sortedness of what is printed: type names in natural order as the property's 'sort' means
    sx = g.sx_schema(canon_defaults(sir))
    lines.append("sort " + sx)
    meta.append(("eq", "lexicographic_sort_schema", case, g.sx_schema(canon_defaults(ssir))))
    lines.append(f"changes {g.sx_schema(sir)} {g.sx_schema(ssir)}")
    meta.append(("changes", "find_schema_changes(s, sorted)", case, canon_changes_impl(c1, universe)))
    return ss


def check_mutant(rep, a, a_ir, rng, case, lines, meta, forced_kind=None):
    import graphql as G

    try:
        m = g.gen_mutant(rng, a_ir, forced_kind)
    except Exception:  # noqa: BLE001  (generator corner: not a property failure)
        rep.stats["generator_errors"] = rep.stats.get("generator_errors", 0) + 1
        return
    if m is None:
        return
    mir, label = m
    case = dict(case, mutation=label)
    try:
        b = g.build(g.ir_to_sdl(mir, rng, shuffle=False))
    except Exception:  # noqa: BLE001
        rep.stats["mutant_unbuildable"] = rep.stats.get("mutant_unbuildable", 0) + 1
        return
    rep.evaluations += 1
    rep.stats["mutants"] = rep.stats.get("mutants", 0) + 1
    universe = universe_of(a_ir, mir)
    ta, tb = G.print_schema(a), G.print_schema(b)
    ua, ub = printed_units(a), printed_units(b)
    for x, y, ux, uy, direction in ((a, b, ua, ub, "a->b"), (b, a, ub, ua, "b->a")):
        ch = changes_of(x, y)
        rep.stats["changes_reported"] = rep.stats.get("changes_reported", 0) + len(ch)
        for kind, _ in ch:
            rep.stats["kind_" + kind] = rep.stats.get("kind_" + kind, 0) + 1
        if ch and ta == tb:
            rep.failures.append(Failure("change-without-printed-difference-" + ch[0][0], "a change is reported between schemas that print identically", dict(case, direction=direction), ch[:5], "no change", "C19 change_real"))
        for kind, desc in ch:
            toks = [t for t in g.NAME_RE.findall(desc) if t in universe]
            units = [t for t in toks if t in ux or t in uy] + ["@" + t for t in toks if "@" + t in ux or "@" + t in uy]
            if units and all(ux.get(u) == uy.get(u) for u in units):
                rep.failures.append(Failure("change-subject-unchanged-" + kind, "a reported change mentions only types/directives whose printed forms are identical", dict(case, direction=direction), [kind, desc], "a printed difference in a mentioned type or directive", "C19 change_real"))
        if True:
            lines.append(f"changes {g.sx_schema(g.schema_ir(x))} {g.sx_schema(g.schema_ir(y))}")
            meta.append(("changes", "find_schema_changes(a, mutant) " + direction, dict(case, direction=direction, sdl_a=ta, sdl_b=tb), canon_changes_impl(ch, universe)))


def type_identity(schema):
    return [(n, id(t), id(getattr(t, "fields", None)), tuple(getattr(t, "fields", {}) or ())) for n, t in schema.type_map.items()]


def run_ext_case(rep, seed, idx, lines, meta):
    import graphql as G
    from graphql import GraphQLError
    from graphql.utilities import extend_schema

    rng = random.Random(f"c19:{seed}:{idx}")
    case = {"case": [seed, idx]}
    try:
        ir = g.gen_ir(rng)
    except Exception:  # noqa: BLE001  (generator corner: not a property failure)
        rep.stats["generator_errors"] = rep.stats.get("generator_errors", 0) + 1
        return
    explicit = rng.random() < 0.5
    if explicit:
        A = "\n\n".join([g.sdl_schema_block(ir, rng, force=True)] + [g.sdl_directive(d, rng) for d in ir["directives"]] + [g.sdl_type(t, rng) for t in ir["types"]]) + "\n"
    else:
        A = g.ir_to_sdl(ir, rng)
    try:
        a = g.build(A)
    except Exception:  # noqa: BLE001
        rep.stats["base_rejected"] = rep.stats.get("base_rejected", 0) + 1
        return
    if G.validate_schema(a):
        rep.stats["base_invalid"] = rep.stats.get("base_invalid", 0) + 1
        return
    a_ir = g.schema_ir(a)
    universe = universe_of(a_ir)
    check_sort_and_self(rep, a, case, lines, meta, universe)
    nk = len(g.MUTATION_KINDS)
    for k in range(3):
        check_mutant(rep, a, a_ir, rng, dict(case, mutant=k), lines, meta, g.MUTATION_KINDS[(idx * 3 + k) % nk])
    # --- extension
    try:
        items, comb = g.gen_extension(rng, ir, a.ast_node is not None)
    except Exception:  # noqa: BLE001  (generator corner: not a property failure)
        rep.stats["generator_errors"] = rep.stats.get("generator_errors", 0) + 1
        return
    if not items:
        return
    B = g.items_to_sdl(items, rng)
    case = dict(case, A=A, B=B)
    before_text = G.print_schema(a)
    before_ids = type_identity(a)
    guard = Unchanged(a)
    docB = g.parse_sdl(B)
    from graphql.validation.validate import validate_sdl

    if validate_sdl(docB, a):
        # not "an extension document valid against A" (extend_schema reports this as TypeError)
        rep.stats["extension_rejected"] = rep.stats.get("extension_rejected", 0) + 1
        return
    try:
        e = extend_schema(a, docB)
    except GraphQLError:
        rep.stats["extension_rejected"] = rep.stats.get("extension_rejected", 0) + 1
        return
    except Exception as ex:  # noqa: BLE001
        rep.failures.append(Failure("extend-raises", "extend_schema raises a non-GraphQL error", case, f"{type(ex).__name__}: {ex}"[:300], "a schema or GraphQLError", "C19 extend"))
        return
    # the original (and the library's shared built-in objects) must be untouched whatever B was
    guard.check(rep, case, "extend", "C19 extend_pure")
    if G.validate_schema(e):
        rep.stats["extension_invalid"] = rep.stats.get("extension_invalid", 0) + 1
        return
    rep.evaluations += 1
    rep.nontrivial += 1 if len(items) >= 2 else 0
    rep.stats["extensions"] = rep.stats.get("extensions", 0) + 1
    for it in items:
        rep.stats["item_" + it[0]] = rep.stats.get("item_" + it[0], 0) + 1
    builtin_ext = g.has_builtin_ext(items)
    if builtin_ext:
        rep.stats["builtin_scalar_extensions"] = rep.stats.get("builtin_scalar_extensions", 0) + 1
    try:
        c = g.build(A + "\n" + B) if not builtin_ext else e
    except Exception as ex:  # noqa: BLE001
        rep.failures.append(Failure("build-of-A-plus-B-fails", "B extends build(A) but A+B does not build", case, f"{type(ex).__name__}: {ex}"[:300], "a schema", "C19 extend_eq_build"))
        return
    te, tc = G.print_schema(e), G.print_schema(c)
    eir, cir = g.schema_ir(e), g.schema_ir(c)
    if eir != cir:
        from checks.c17 import component_of, first_diff

        path = first_diff(cir, eir)
        rep.failures.append(Failure("extend-vs-build-" + component_of(path), "extending build(A) with B differs from building A and B together at " + str(path), case, path, "same content", "C19 extend_eq_build"))
    elif te != tc:
        rep.failures.append(Failure("extend-vs-build-text", "extend(build(A), B) prints differently from build(A+B)", case, te[:800], tc[:800], "C19 extend_eq_build"))
    ch = changes_of(e, c) + changes_of(c, e)
    if ch:
        rep.failures.append(Failure("extend-vs-build-changes-" + ch[0][0], "changes detected between extend(build(A), B) and build(A+B)", case, ch[:5], [], "C19 extend_eq_build"))
    if G.print_schema(a) != before_text or type_identity(a) != before_ids or g.schema_ir(a) != a_ir:
        rep.failures.append(Failure("extend-mutates-original", "the original schema changed while it was extended", case, None, None, "C19 extend_pure"))
    if e is a:
        rep.failures.append(Failure("extend-returns-original-for-real-extension", "extend_schema returned the original for a document with definitions", case, None, None, "C19 extend"))
    noop = rng.choice(NOOP_DOCS)
    try:
        same = extend_schema(a, G.parse(noop)) is a
    except Exception as ex:  # noqa: BLE001
        same = f"raises {type(ex).__name__}"
    if same is not True:
        rep.failures.append(Failure("extend-noop-identity", "extending with a document that adds nothing does not return the original schema object", dict(case, noop=noop), same, True, "C19 extend_noop"))
    if eir != comb:
        from checks.c17 import first_diff

        rep.disagreements.append(Disagreement("extend_schema vs generator expectation", dict(case, at=first_diff(comb, eir)), first_diff(comb, eir), "generator IR"))
    # correspondence
    sa = g.sx_schema(a_ir)
    lines.append(f"extend {sa} {g.sx_doc(docB)}")
    meta.append(("eq", "extend_schema", case, "ok " + g.sx_schema(eir) + " new"))
    lines.append(f"extend {sa} ( L other other )")
    meta.append(("eq", "extend_schema(no-op)", case, "ok " + sa + " same"))
    if not builtin_ext:
        lines.append("build " + g.sx_doc(g.parse_sdl(A + "\n" + B)))
        meta.append(("eq", "build_schema(A+B)", case, "ok " + g.sx_schema(cir)))
    # the extended schema is another schema to sort / compare with itself
    check_sort_and_self(rep, e, dict(case, on="extended"), lines, meta, universe_of(eir))
    if len(rep.samples) < 2:
        rep.samples.append({"case": case["case"], "B": B[:500]})


# ----------------------------------------------------------------------------- root stability (observation O2)

CONV = {"query": "Query", "mutation": "Mutation", "subscription": "Subscription"}
ROOT_VARIANTS = ["new-conv-type", "new-conv-type+xschema-conv", "new-conv-type+xschema-other", "xschema-other",
                 "explicit-block+new-conv-type", "no-query-base+type-Query"]
ROOT_EXPECT_STABLE = {"new-conv-type": False, "new-conv-type+xschema-conv": True, "new-conv-type+xschema-other": False,
                      "xschema-other": True, "explicit-block+new-conv-type": True, "no-query-base+type-Query": False}


def _plain_object(name, rng, refs=()):
    fs = [{"name": n, "desc": None, "args": [], "type": ["named", rng.choice(["Int", "String", "ID"] + list(refs))], "depr": None}
          for n in rng.sample(["m", "n1", "n2", "do_it", "x"], rng.randint(1, 3))]
    return {"kind": "object", "name": name, "desc": None, "interfaces": [], "fields": fs}


def run_root_case(rep, seed, idx, lines, meta):
    """(A, B) pairs on both sides of `RootsStable` (hypothesis of `extend_eq_build`): B brings a type
    called Query / Mutation / Subscription that A lacks, with or without a schema extension naming it,
    over bases with and without a schema definition.  Model vs implementation on every pair; the
    property's relation extend == build(A+B) only where the Lean predicate holds."""
    import graphql as G
    from graphql.utilities import extend_schema
    from graphql.validation.validate import validate_sdl

    rng = random.Random(f"c19root:{seed}:{idx}")
    variant = ROOT_VARIANTS[idx % len(ROOT_VARIANTS)]
    case = {"case": [seed, idx, "root"], "variant": variant}
    explicit = variant == "explicit-block+new-conv-type"
    ir = None
    if variant == "no-query-base+type-Query":
        # a base document that builds but has no query root (not a valid *schema*; a valid document)
        tn = rng.choice(["T", "Thing", "query", "Query2"])
        A = g.sdl_type(_plain_object(tn, rng), rng) + "\n\n" + rng.choice(["", "enum E {\n  A\n  B\n}\n", "scalar S\n"])
        op = "query"
    else:
        for _ in range(40):
            try:
                cand = g.gen_ir(rng)
            except Exception:  # noqa: BLE001
                continue
            free = [o for o in ("mutation", "subscription") if cand[o] is None and CONV[o] not in {t["name"] for t in cand["types"]}]
            if free and (explicit or not g.needs_schema_block(cand)):
                ir = cand
                break
        if ir is None:
            rep.stats["root_base_not_found"] = rep.stats.get("root_base_not_found", 0) + 1
            return
        op = rng.choice(free)
        if explicit:
            A = "\n\n".join([g.sdl_schema_block(ir, rng, force=True)] + [g.sdl_directive(d, rng) for d in ir["directives"]] + [g.sdl_type(t, rng) for t in ir["types"]]) + "\n"
        else:
            A = "\n\n".join([g.sdl_directive(d, rng) for d in ir["directives"]] + [g.sdl_type(t, rng) for t in ir["types"]]) + "\n"
    conv = CONV[op]
    try:
        a = g.build(A)
    except Exception:  # noqa: BLE001
        rep.stats["base_rejected"] = rep.stats.get("base_rejected", 0) + 1
        return
    if variant != "no-query-base+type-Query" and G.validate_schema(a):
        rep.stats["base_invalid"] = rep.stats.get("base_invalid", 0) + 1
        return
    if (a.ast_node is not None) != explicit:
        rep.stats["root_base_not_found"] = rep.stats.get("root_base_not_found", 0) + 1
        return
    # extension items: random ones of the ordinary generator (without its own schema extensions) + the root items
    items = []
    if ir is not None and rng.random() < 0.6:
        try:
            items = [it for it in g.gen_extension(rng, ir, explicit)[0] if it[0] not in ("xschema", "xbuiltin")]
        except Exception:  # noqa: BLE001
            items = []
    used = {t["name"] for t in (ir["types"] if ir else [])} | {it[1]["name"] for it in items if it[0] == "type"}
    other = next(n for n in ("Other", "Writes", "RootX", "RootY", "RootZ") if n not in used)
    root_items = []
    if variant in ("new-conv-type", "explicit-block+new-conv-type", "no-query-base+type-Query"):
        root_items = [("type", _plain_object(conv, rng))]
    elif variant == "new-conv-type+xschema-conv":
        root_items = [("type", _plain_object(conv, rng)), ("xschema", {op: conv})]
    elif variant == "new-conv-type+xschema-other":
        root_items = [("type", _plain_object(conv, rng)), ("type", _plain_object(other, rng)), ("xschema", {op: other})]
    elif variant == "xschema-other":
        root_items = [("type", _plain_object(other, rng)), ("xschema", {op: other})]
    for it in root_items:
        items.insert(rng.randint(0, len(items)), it)
    B = g.items_to_sdl(items, rng)
    case = dict(case, A=A, B=B)
    docA, docB = g.parse_sdl(A), g.parse_sdl(B)
    if validate_sdl(docB, a):
        rep.stats["extension_rejected"] = rep.stats.get("extension_rejected", 0) + 1
        return
    guard = Unchanged(a, with_introspection=False)
    try:
        e = extend_schema(a, docB)
        c = g.build(A + "\n" + B)
    except G.GraphQLError:
        rep.stats["extension_rejected"] = rep.stats.get("extension_rejected", 0) + 1
        return
    except Exception as ex:  # noqa: BLE001
        rep.failures.append(Failure("extend-raises", "extend_schema / build_schema raises a non-GraphQL error", case, f"{type(ex).__name__}: {ex}"[:300], "a schema or GraphQLError", "C19 extend"))
        return
    guard.check(rep, case, "extend", "C19 extend_pure")
    rep.evaluations += 1
    rep.nontrivial += 1
    stable = ROOT_EXPECT_STABLE[variant]
    rep.stats["root_cases"] = rep.stats.get("root_cases", 0) + 1
    rep.stats["root_" + variant] = rep.stats.get("root_" + variant, 0) + 1
    a_ir, eir, cir = g.schema_ir(a), g.schema_ir(e), g.schema_ir(c)
    roots_e = [eir[o] for o in CONV]
    roots_c = [cir[o] for o in CONV]
    if stable:
        # inside the property: the relation itself, on the implementation
        rep.stats["root_stable"] = rep.stats.get("root_stable", 0) + 1
        if eir != cir:
            from checks.c17 import component_of, first_diff

            path = first_diff(cir, eir)
            rep.failures.append(Failure("extend-vs-build-" + component_of(path), "extending build(A) with B differs from building A and B together at " + str(path), case, path, "same content", "C19 extend_eq_build"))
        elif G.print_schema(e) != G.print_schema(c):
            rep.failures.append(Failure("extend-vs-build-text", "extend(build(A), B) prints differently from build(A+B)", case, G.print_schema(e)[:800], G.print_schema(c)[:800], "C19 extend_eq_build"))
        ch = changes_of(e, c) + changes_of(c, e)
        if ch:
            rep.failures.append(Failure("extend-vs-build-changes-" + ch[0][0], "changes detected between extend(build(A), B) and build(A+B)", case, ch[:5], [], "C19 extend_eq_build"))
    else:
        # outside the property (observation O2): no alarm; recorded, and compared with the model below
        rep.stats["root_unstable"] = rep.stats.get("root_unstable", 0) + 1
        rep.stats["root_unstable_roots_differ" if roots_e != roots_c else "root_unstable_roots_equal"] = rep.stats.get("root_unstable_roots_differ" if roots_e != roots_c else "root_unstable_roots_equal", 0) + 1
        if dict(eir, query=None, mutation=None, subscription=None) != dict(cir, query=None, mutation=None, subscription=None):
            # everything except the roots is C19-1's per-kind merge: must agree on either side
            from checks.c17 import component_of, first_diff

            path = first_diff(cir, eir)
            rep.failures.append(Failure("extend-vs-build-" + component_of(path), "outside the roots, extending build(A) with B differs from building A and B together at " + str(path), case, path, "same content apart from the roots", "C19 extendType_append / buildNamedType_append"))
    # correspondence: the model on both sides of the condition, and the condition itself
    sa = g.sx_schema(a_ir)
    lines.append(f"extend {sa} {g.sx_doc(docB)}")
    meta.append(("eq", "extend_schema (root case)", case, "ok " + g.sx_schema(eir) + " new"))
    lines.append("build " + g.sx_doc(g.parse_sdl(A + "\n" + B)))
    meta.append(("eq", "build_schema(A+B) (root case)", case, "ok " + g.sx_schema(cir)))
    lines.append("build " + g.sx_doc(docA))
    meta.append(("eq", "build_schema(A) (root case)", case, "ok " + sa))
    lines.append(f"rootsstable {g.sx_doc(docA)} {g.sx_doc(docB)}")
    meta.append(("eq", "RootsStable vs the generator's side of the condition", case, "T" if stable else "F"))
    lines.append(f"rootsstable {g.sx_doc(docA)} {g.sx_doc(docB)}")
    meta.append(("eq", "RootsStable vs (extend == build) on the implementation", case, "T" if eir == cir else "F"))
    if len(rep.samples) < 4 and idx < 6:
        rep.samples.append({"case": case["case"], "variant": variant, "stable": stable, "B": B[:300], "roots_extend": roots_e, "roots_build": roots_c})


NAT_NAMES = ["a1", "a01", "a10", "a9", "a2b", "a2", "a", "A1", "a1_", "a1b10", "a1b9", "a001", "a1a", "_1", "_", "b", "a00", "a0", "x10y2", "x10y10", "x9y100", "T2", "T10", "T02", "t1", "Z_1", "A007", "A7", "A07x", "A7x"]


def natural_lines(rng, lines, meta, extra):
    from graphql.pyutils import natural_comparison_key

    names = NAT_NAMES + list(extra)
    for _ in range(120):
        a, b = rng.choice(names), rng.choice(names)
        lines.append(f"natle {g.sx_str(a)} {g.sx_str(b)}")
        meta.append(("eq", "natural_comparison_key", {"names": [a, b]}, "T" if natural_comparison_key(a) <= natural_comparison_key(b) else "F"))


def compare(rep, drv, lines, meta):
    if not drv or not lines:
        return
    outs = fw.Driver(drv).run(lines)
    for (mode, comp, inp, want), out in zip(meta, outs):
        rep.evaluations += 1
        if mode == "eq":
            if out != want:
                i = next((k for k, (x, y) in enumerate(zip(out, want)) if x != y), min(len(out), len(want)))
                rep.disagreements.append(Disagreement(comp, inp, want[max(0, i - 120) : i + 120], out[max(0, i - 120) : i + 120]))
        else:
            model = canon_changes_model(out)
            if not same_changes(want, model):
                rep.disagreements.append(Disagreement(comp, inp, want[:12], model[:12]))


def _work(args):
    cases, drv, first = args
    fw.use_repo()
    rep = Report()
    lines, meta = [], []
    if first:
        natural_lines(random.Random(f"c19nat:{cases[0][0] if cases else 0}"), lines, meta, [])
        run_corpus(rep, lines, meta)
    for seed, idx in cases:
        try:
            if idx >= ROOT_BASE:
                run_root_case(rep, seed, idx - ROOT_BASE, lines, meta)
            else:
                run_ext_case(rep, seed, idx, lines, meta)
        except Exception:  # noqa: BLE001
            import traceback

            rep.failures.append(Failure("harness-or-library-exception", "unexpected exception while checking a case", {"case": [seed, idx]}, traceback.format_exc()[-800:], "no exception", "C19"))
    compare(rep, drv, lines, meta)
    return rep


def run_corpus(rep, lines, meta):
    import graphql as G
    from graphql.utilities import extend_schema

    if not CORPUS_DIR.exists():
        return
    for p in sorted(CORPUS_DIR.glob("*.graphql")):
        text = p.read_text()
        A, _, B = text.partition("\n# ---- extension ----\n")
        case = {"corpus": p.name}
        observation = "observation" in p.name  # pairs outside RootsStable (O2): recorded, never an alarm
        try:
            a = g.build(A)
        except Exception as e:  # noqa: BLE001
            rep.notes.append(f"corpus {p.name}: base does not build: {type(e).__name__}")
            continue
        invalid = bool(G.validate_schema(a))
        if invalid and not observation:
            continue
        rep.stats["corpus"] = rep.stats.get("corpus", 0) + 1
        if not invalid:
            check_sort_and_self(rep, a, case, lines, meta, universe_of(g.schema_ir(a)))
        if B.strip():
            docA, docB = g.parse_sdl(A), g.parse_sdl(B)
            e = extend_schema(a, docB)
            c = g.build(A + "\n" + B)
            if G.print_schema(e) != G.print_schema(c) and not observation:
                rep.failures.append(Failure("extend-vs-build-text", "extend(build(A), B) prints differently from build(A+B)", case, G.print_schema(e)[:600], G.print_schema(c)[:600], "C19 extend_eq_build"))
            a_ir, eir, cir = g.schema_ir(a), g.schema_ir(e), g.schema_ir(c)
            if eir != cir and not observation:
                rep.failures.append(Failure("extend-vs-build-content", "extend(build(A), B) differs from build(A+B)", case, None, "same content", "C19 extend_eq_build"))
            rep.evaluations += 1
            lines.append(f"extend {g.sx_schema(a_ir)} {g.sx_doc(docB)}")
            meta.append(("eq", "extend_schema (corpus)", case, "ok " + g.sx_schema(eir) + " new"))
            lines.append("build " + g.sx_doc(g.parse_sdl(A + "\n" + B)))
            meta.append(("eq", "build_schema(A+B) (corpus)", case, "ok " + g.sx_schema(cir)))
            lines.append(f"rootsstable {g.sx_doc(docA)} {g.sx_doc(docB)}")
            meta.append(("eq", "RootsStable vs the corpus file's side of the condition", case, "F" if observation else "T"))
            lines.append(f"rootsstable {g.sx_doc(docA)} {g.sx_doc(docB)}")
            meta.append(("eq", "RootsStable vs (extend == build) on the implementation (corpus)", case, "T" if eir == cir else "F"))


def explore(ctx) -> Report:
    fw.use_repo()
    n = 96 if ctx.tier == "quick" else 800
    if ctx.escalate and ctx.tier == "quick":
        n = 240
    n = int(os.environ.get("VERIF_CASES", "0") or 0) or n
    n_root = 48 if ctx.tier == "quick" else 480
    cases = [(ctx.seed, i) for i in range(n)] + [(ctx.seed, ROOT_BASE + i) for i in range(n_root)]
    rng = random.Random(f"c19order:{ctx.seed}")
    rng.shuffle(cases)  # spread the two kinds of cases over the workers
    chunks = fw.chunked(cases, fw.WORKERS * 2)
    drv = DRIVER if ctx.driver else None
    reps = fw.pmap(_work, [(c, drv, k == 0) for k, c in enumerate(chunks)])
    rep = Report()
    for r in reps:
        rep.merge(r)
    rep.rule = (
        "random valid base schemas (generator of C17, with and without an explicit schema block) x random extension documents "
        "(new types of every kind, new directives, extensions adding fields/interfaces/members/values/input fields/"
        "specifiedBy/operation types/directive deprecations to any subset of types, several extensions per type, shuffled "
        "definition order) accepted by extend_schema and valid afterwards; each base and each extended schema is also sorted "
        "and compared with itself; three single-edit mutants per base (45 edit kinds, round-robin), compared in both directions; "
        "root-stability pairs (6 templates round-robin, both sides of RootsStable: B brings `type Query/Mutation/Subscription` that A lacks, "
        "alone / with `extend schema` naming it / naming another type / over a base with a schema block / over a base without query root; "
        "model vs implementation for extend, build(A), build(A+B) and for the predicate itself; extend == build asserted only where RootsStable holds). "
        "non-trivial = extension with >= 2 items, or a root-stability pair"
    )
    return rep


def search(ctx, rep) -> Report:
    fw.use_repo()
    cases = [(ctx.seed, 100000 + i) for i in range(600 if ctx.tier == "quick" else 3000)]
    cases += [(ctx.seed, ROOT_BASE + 100000 + i) for i in range(120 if ctx.tier == "quick" else 600)]
    chunks = fw.chunked(cases, fw.WORKERS * 2)
    reps = fw.pmap(_work, [(c, None, False) for c in chunks])
    out = Report()
    for r in reps:
        out.merge(r)
    out.disagreements = []
    return out


def replay(ctx, payload) -> Report:
    fw.use_repo()
    inp = payload.get("input") or {}
    rep = Report()
    lines, meta = [], []
    if isinstance(inp, dict) and "case" in inp:
        seed, idx = inp["case"][:2]
        if len(inp["case"]) > 2 and inp["case"][2] == "root":
            run_root_case(rep, seed, idx, lines, meta)
        else:
            run_ext_case(rep, seed, idx, lines, meta)
    elif isinstance(inp, dict) and "corpus" in inp:
        run_corpus(rep, lines, meta)
    compare(rep, DRIVER if ctx.driver else None, lines, meta)
    return rep
