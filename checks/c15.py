"""C15 — input coercion and input validation agree on values, literals and variables."""
from __future__ import annotations

import math
import random

from checks import c16 as _c16
from tools import c16_values as cv
from tools import fw
from tools.fw import Disagreement, Failure, Report

ID = "C15"
PROPS = "Gql.Props.C15"
DRIVER = "drv_c15"
LEVEL = "proof"
LEVEL_TEXT = (
    "Lean theorems (unbounded: all type maps, values, literals, variable maps), every clause of the property. For every "
    "well-formed type map - any nesting of list/non-null over the built-in scalars, enums, recursive input objects with defaults "
    "and OneOf input objects: coerce_input_value never raises and returns a value iff validate_input_value reports nothing "
    "(coerce_iff_valid_value); the same for literals, statically for constants and with a variable map "
    "(coerce_iff_valid_literal: lists with missing variables, objects with variable fields, OneOf counting and null checks); "
    "ValuesOfCorrectTypeRule's verdict on a constant argument is that of coercion (rule_iff_coerce); every result of value "
    "coercion and of constant-literal coercion conforms to the type - 32-bit Int, finite Float, declared enum value, exactly the "
    "declared fields in order with non-null and defaulted fields present, exactly one non-None entry for OneOf, None only where "
    "nullable (coerced_conforms, coerced_conforms_literal, inductive Conforms; the Float-literal clause failed on the code as "
    "found: 1e1000 -> inf); value_to_literal followed by coerce_input_literal gives exactly the coerced value, through lists, "
    "objects with defaults and OneOf, under five stated CPython laws (literal_roundtrip); get_variable_values never raises and "
    "returns errors or a value for every provided/defaulted variable (variables_total); wrong containers at object positions are "
    "rejected by both functions. The models of all seven functions are compared with the code on generated type maps x values x "
    "literals x variable maps (~29k calls quick, ~1.3M thorough), and the property's relations are evaluated directly on the "
    "implementation's outputs for every generated case."
)
LEVEL_NOTE = (
    "No clause is left unproved at model level. Trusted: Lean kernel; hand-written models Gql/Values/*.lean (tied by "
    "correspondence, not by translation); CPython numeric conversions are parameters (RoundTripLaws, PyConv.Laws are hypotheses, "
    "spot-checked by the round-trip oracle). Hypotheses of the theorems = what schema validation and Python guarantee: TmWF "
    "(defaults valid, OneOf fields nullable without defaults, enum internal values not None, unique field names per input object), "
    "DefaultsConform (coerce_default_value's own results conform), dict keys unique, literals with unique field names, default "
    "literals constant; a bare variable without runtime value at a nullable position is 'no value' by design (VarOK). That "
    "ValuesOfCorrectTypeRule is a static validate_input_literal call is a correspondence fact, not a theorem. replace_variables "
    "only feeds custom scalars and is not modelled; out_name/out_type and non-str dict keys are outside the "
    "model. Fragment variables (experimental fragment arguments) are modelled by the scoping rule scopeVars - a fragment-declared name "
    "shadows the operation variable of the same name even when it has no value - and the iff theorem is stated for the scoped map "
    "(coerce_iff_valid_literal_scoped); FragmentVariableValues sharing names with the operation variables are generated and "
    "variables of both scopes are injected inside list and object literals. Non-dict Mappings (MappingProxyType, ChainMap, UserDict, user Mapping), dict subclasses and non-list iterables (set, "
    "frozenset, generator, deque, user iterable) are modelled (PyVal.mapping / dict / iter) and generated at every list and "
    "object position."
)
TECHNIQUE = "Lean 4 theorems about an executable model + differential correspondence check against the implementation"
TRUSTED = [
    "hand-written Lean models Gql/Values/{Coerce,ValidateInput,ToLiteral,Variables,Scalars,Enum}.lean; tied to the code by "
    "the correspondence run (outcome of all seven functions compared per case)",
    "CPython conversions int(str), float(str), float(int), str(float), str(int) supplied per case by CPython",
    "the Python conformance checker `conforms` in checks/c15.py is a direct transcription of the property's conformance clause",
]
ASSUMPTIONS = [
    "type maps are well-formed as schema validation enforces: valid, non-circular defaults; OneOf fields nullable without "
    "defaults; (for conformance/OneOf agreement) enum internal values are not None",
    "object literals have unique field names (UniqueInputFieldNamesRule); otherwise OneOf coercion (last wins) and validation "
    "(counts nodes) differ — reported as an observation, oracle not applied",
    "a literal that is a bare variable without runtime value at a nullable type coerces to Undefined = 'no value' (callers "
    "test this first); excluded from the iff",
    "a one-shot iterator (generator) is a value for a single call only: get_variable_values traverses a variable twice "
    "(coercion, then validation), so generators are replaced by re-iterable objects in variable inputs",
    "PyConv laws used by literal_roundtrip: int(str(z)) = z, float(str(f)) = f, float(str(z)) = float(z) (spot-checked by the "
    "round-trip oracle on the implementation)",
]
EXPLANATION = (
    "Theorems: coerce_iff_valid_value, coerce_iff_valid_value_noOneOf, coerce_value_no_crash, non_dict_rejected_by_both, "
    "wrong_containers_not_dict, validate_silent_path_independent, coerce_iff_valid_literal, fragment_scope_shadows, "
    "coerce_iff_valid_literal_scoped, coerce_literal_no_crash, "
    "rule_iff_coerce, scalar_value_conforms, scalar_literal_conforms, enum_value_conforms, coerced_conforms, "
    "coerced_conforms_literal, nullish_under_nonNull_rejected, null_is_valid_nullable, literal_roundtrip_leaf, literal_roundtrip, "
    "variables_total. Correspondence: model vs coerce_input_value, validate_input_value, value_to_literal, coerce_input_literal, "
    "validate_input_literal (static and with variables), get_variable_values, validate(doc,[ValuesOfCorrectTypeRule]). Oracles "
    "on the implementation: coerce ok <=> validate silent (values, literals), conformance, literal round trip, rule <=> "
    "coercion, variables total."
)

SCALARS = ["Int", "Float", "String", "Boolean", "ID"]


class _U:
    """placeholder for Undefined in generated data (replaced in `mat`)"""

    def __repr__(self):
        return "Undefined"


U = _U()


class Obj:
    def __repr__(self):
        return "<Obj>"


class CustomMap:  # registered as a Mapping below (a user mapping that is not a dict)
    def __init__(self, d):
        self._d = dict(d)

    def __getitem__(self, k):
        return self._d[k]

    def __iter__(self):
        return iter(self._d)

    def __len__(self):
        return len(self._d)


import collections as _collections  # noqa: E402
import collections.abc as _abc  # noqa: E402
import types as _types  # noqa: E402


class CustomMapping(CustomMap, _abc.Mapping):
    pass


class DictSub(dict):
    """a dict subclass with extra behaviour (accepted wherever a dict is)"""

    extra = "x"

    def __missing__(self, k):
        return 99

    def describe(self):
        return "DictSub"


class CustomIter:
    """re-iterable user object with `__iter__` only"""

    def __init__(self, xs):
        self._xs = list(xs)

    def __iter__(self):
        return iter(self._xs)


class WC:
    """A container that is neither a plain list/tuple nor a plain dict, kept as plain data and
    materialised freshly for every call (generators are one-shot)."""

    MAPPINGS = ("mproxy", "chainmap", "userdict", "custommap")  # Mapping but not dict: rejected as input object
    DICTS = ("odict", "ddict", "dictsub")  # dict subclasses: accepted as input object
    ITERS = ("set", "frozenset", "gen", "customiter", "deque")  # is_iterable: accepted at list positions

    def __init__(self, kind, payload):
        self.kind, self.payload = kind, payload

    def __repr__(self):
        return f"{self.kind}({self.payload!r})"

    def build(self, m):
        k = self.kind
        if k == "mproxy":
            return _types.MappingProxyType(m)
        if k == "chainmap":
            return _collections.ChainMap(m)
        if k == "userdict":
            return _collections.UserDict(m)
        if k == "custommap":
            return CustomMapping(m)
        if k == "odict":
            return _collections.OrderedDict(m)
        if k == "ddict":
            return _collections.defaultdict(lambda: 7, m)
        if k == "dictsub":
            return DictSub(m)
        if k == "set":
            return set(m)
        if k == "frozenset":
            return frozenset(m)
        if k == "gen":
            return (x for x in m)
        if k == "customiter":
            return CustomIter(m)
        return _collections.deque(m)


def _hashable_plain(x):
    return x is None or x is U or isinstance(x, (bool, int, float, str))


def wrap_iter(rng, items, allow_gen=True):
    kinds = ["customiter", "deque"] + (["gen"] if allow_gen else [])
    if all(_hashable_plain(x) for x in items):
        kinds += ["set", "frozenset"]
    return WC(rng.choice(kinds), list(items))


def wrap_map(rng, d):
    r = rng.random()
    if not all(isinstance(k, str) for k in d):
        return d
    return WC(rng.choice(WC.MAPPINGS if r < 0.6 else WC.DICTS), dict(d))


def flatten(pv):
    """the plain payload (for collecting the numbers/strings CPython converts)"""
    if isinstance(pv, WC):
        return flatten(pv.payload)
    if type(pv) in (list, tuple):
        return [flatten(x) for x in pv]
    if type(pv) is dict:
        return {k: flatten(x) for k, x in pv.items()}
    return pv


def has_kind(pv, kinds):
    if isinstance(pv, WC):
        return pv.kind in kinds or has_kind(pv.payload, kinds)
    if type(pv) in (list, tuple):
        return any(has_kind(x, kinds) for x in pv)
    if type(pv) is dict:
        return any(has_kind(x, kinds) for x in pv.values())
    return False


def enc_pv(w, pv):
    """wire encoding of a generated value (placeholders included): a non-dict Mapping is `M`, a
    dict subclass `D`, any other iterable `J` with the items one traversal yields"""
    if isinstance(pv, WC):
        if pv.kind in WC.MAPPINGS or pv.kind in WC.DICTS:
            tag = "M" if pv.kind in WC.MAPPINGS else "D"
            return " ".join([f"{tag} {len(pv.payload)}"] + [cv.enc_str(k) + " " + enc_pv(w, x) for k, x in pv.payload.items()])
        if pv.kind in ("set", "frozenset"):
            items = list(w.mat(pv))  # CPython's own iteration order and de-duplication
            return " ".join([f"J {len(items)}"] + [w.enc(x) for x in items])
        return " ".join([f"J {len(pv.payload)}"] + [enc_pv(w, x) for x in pv.payload])
    if type(pv) is list:
        return " ".join([f"L {len(pv)}"] + [enc_pv(w, x) for x in pv])
    if type(pv) is tuple:
        return " ".join([f"P {len(pv)}"] + [enc_pv(w, x) for x in pv])
    if type(pv) is dict and all(isinstance(k, str) for k in pv):
        return " ".join([f"D {len(pv)}"] + [cv.enc_str(k) + " " + enc_pv(w, x) for k, x in pv.items()])
    return w.enc(w.mat(pv))


# ----------------------------------------------------------------------------- generation of type maps


def T_n(n):
    return ("n", n)


def gen_type(rng, names, depth=0):
    r = rng.random()
    if depth < 3 and r < 0.22:
        return ("l", gen_type(rng, names, depth + 1))
    if depth < 3 and r < 0.42:
        inner = gen_type(rng, names, depth + 1)
        return inner if inner[0] == "nn" else ("nn", inner)
    return T_n(rng.choice(names))


def strip_nn(t):
    return t[1] if t[0] == "nn" else t


def gen_typemap(rng):
    tm = {s: ("sc", s) for s in SCALARS}
    flags = set()
    tm["E0"] = ("en", [("A", "A"), ("B", "B"), ("C", "C")])
    tm["E1"] = ("en", [("A", 1), ("B", True), ("X", "x"), ("L", [1, 2])])
    if rng.random() < 0.12:
        tm["E2"] = ("en", [("A", None), ("B", 2), ("C", U)])
        flags.add("enumNone")
    else:
        tm["E2"] = ("en", [("A", 0), ("B", 2), ("C", U)])
    nobj = rng.randint(1, 4)
    objnames = [f"I{i}" for i in range(nobj)] + ["O0"]
    leafnames = SCALARS + ["E0", "E1", "E2"]
    order = {n: i for i, n in enumerate(objnames)}
    for n in objnames:
        tm[n] = None
    for n in objnames[:-1]:
        fields = []
        for j in range(rng.randint(1, 4)):
            pool = leafnames * 2 + objnames
            t = gen_type(rng, pool)
            # no unbreakable non-null cycle: a bare non-null reference only to later objects
            core = strip_nn(t)
            if t[0] == "nn" and core[0] == "n" and core[1] in order and order[core[1]] <= order[n]:
                t = core
            fields.append([f"f{j}", t, None])
        tm[n] = ("io", False, fields)
    k = rng.randint(1, 3)
    ofields = []
    for j in range(k):
        t = strip_nn(gen_type(rng, leafnames * 2 + objnames))
        ofields.append([f"g{j}", t, None])
    tm["O0"] = ("io", True, ofields)
    # defaults (valid, non-circular: object-typed defaults only mention later objects)
    for n in objnames[:-1]:
        for fld in tm[n][2]:
            if rng.random() < 0.4:
                v = gen_valid(rng, tm, fld[1], 0, after=order[n], order=order)
                if v is _NOVAL:
                    continue
                kind = rng.random()
                if kind < 0.45:
                    fld[2] = ("dv", v)
                elif kind < 0.9:
                    fld[2] = ("dl", to_lit(tm, fld[1], v))
                else:
                    core = strip_nn(fld[1])
                    # the deprecated default_value is an *internal* value, used as is: only exact internal types
                    if core[0] == "n" and core[1] in ("Int", "String", "Boolean") and type(v) in (int, str, bool):
                        fld[2] = ("lg", v)
                    else:
                        fld[2] = ("dv", v)
    r = rng.random()
    if r < 0.06:
        n = rng.choice(objnames[:-1])
        fld = rng.choice(tm[n][2])
        fld[2] = ("dv", Obj()) if rng.random() < 0.5 else ("dl", ("o", [("nope", ("i", "1"))]))
        flags.add("badDefault")
    elif r < 0.10:
        tm["O0"][2][0][2] = ("dv", None)
        flags.add("oneOfDefault")
    return tm, flags


_NOVAL = object()


def gen_valid(rng, tm, t, depth, after=-1, order=None):
    """a valid *input* value for type t (or _NOVAL)"""
    if t[0] == "nn":
        v = gen_valid(rng, tm, t[1], depth, after, order)
        return _NOVAL if v is None else v
    if rng.random() < 0.15 or depth > 3:
        return None
    if t[0] == "l":
        if rng.random() < 0.2:
            v = gen_valid(rng, tm, t[1], depth + 1, after, order)
            if v is _NOVAL or v is None or isinstance(v, (list, tuple)):
                return [] if v is _NOVAL else [v]
            return v
        out = []
        for _ in range(rng.randint(0, 3)):
            v = gen_valid(rng, tm, t[1], depth + 1, after, order)
            if v is _NOVAL:
                return []
            out.append(v)
        return out
    d = tm[t[1]]
    if d is None:
        return None
    if d[0] == "sc":
        s = d[1]
        if s == "Int":
            return rng.choice([0, 1, -1, 7, 2**31 - 1, -(2**31), 3.0, rng.randint(-1000, 1000)])
        if s == "Float":
            return rng.choice([0.0, -0.0, 1.5, 2, 1e22, 1e-7, 2**53, rng.random() * 100, 5e-324, rng.randint(-5, 5)])
        if s == "String":
            return rng.choice(["", "a", "1", "A", "é\n", "x y"])
        if s == "Boolean":
            return rng.random() < 0.5
        return rng.choice(["id", "12", "-3", "12\n", 5, 7.0, 10**20, ""])
    if d[0] == "en":
        return rng.choice([k for k, v in d[1] if v is not U])
    # input object
    if order is not None and order.get(t[1], 99) <= after:
        return None
    oneof, fields = d[1], d[2]
    if oneof:
        cand = list(fields)
        rng.shuffle(cand)
        for f in cand:
            v = gen_valid(rng, tm, f[1], depth + 1, after, order)
            if v is not _NOVAL and v is not None:
                return {f[0]: v}
        return _NOVAL
    out = {}
    for f in fields:
        need = f[1][0] == "nn" and f[2] is None
        if need or rng.random() < 0.65:
            v = gen_valid(rng, tm, f[1], depth + 1, after, order)
            if v is _NOVAL:
                if need:
                    return _NOVAL
                continue
            out[f[0]] = v
    return out


BAD = [
    lambda: True, lambda: False, lambda: 0, lambda: 1, lambda: -1, lambda: 2**31, lambda: -(2**31) - 1, lambda: 2**53 + 1,
    lambda: 10**400, lambda: 10**4400, lambda: 1.5, lambda: 3.0, lambda: float("nan"), lambda: float("inf"), lambda: -0.0,
    lambda: 1e308, lambda: "", lambda: "1", lambda: "A", lambda: "abc", lambda: "Z", lambda: [], lambda: [1], lambda: (1,),
    lambda: {}, lambda: {"a": 1}, lambda: {"f0": 1}, lambda: {"g0": None}, lambda: None, lambda: U, lambda: b"x", lambda: Obj(),
    lambda: [None], lambda: [U], lambda: [[1]], lambda: {"f0": U}, lambda: {"g0": 1, "g1": U}, lambda: {"g0": 1, "g1": None},
    lambda: 2.0**31, lambda: -2147483648.0, lambda: 1e400, lambda: [1, "a", None],
    # wrong / unusual containers
    lambda: WC("mproxy", {"f0": 1}), lambda: WC("mproxy", {}), lambda: WC("chainmap", {"g0": 1}), lambda: WC("userdict", {"f0": "a"}),
    lambda: WC("custommap", {"f1": None}), lambda: WC("odict", {"f0": 1}), lambda: WC("ddict", {"g0": 1}), lambda: WC("dictsub", {}),
    lambda: WC("set", []), lambda: WC("set", [1]), lambda: WC("frozenset", ["a", "b"]), lambda: WC("gen", [1, 2]), lambda: WC("gen", []),
    lambda: WC("customiter", [None]), lambda: WC("deque", [1.5]), lambda: WC("set", [1, True, 1.0]), lambda: [WC("mproxy", {"f0": 1})],
    lambda: {"f0": WC("userdict", {"f0": 1})}, lambda: {"g0": WC("set", [1])}, lambda: WC("mproxy", {"g0": 1, "g1": U}),
    lambda: bytearray(b"ab"), lambda: "ab",
]


def strip_gen(pv):
    """the same value with one-shot generators replaced by re-iterable objects"""
    if isinstance(pv, WC):
        return WC("customiter" if pv.kind == "gen" else pv.kind, strip_gen(pv.payload))
    if type(pv) is list:
        return [strip_gen(x) for x in pv]
    if type(pv) is tuple:
        return tuple(strip_gen(x) for x in pv)
    if type(pv) is dict:
        return {k: strip_gen(x) for k, x in pv.items()}
    return pv


def gen_value(rng, tm, t, depth=0, p_bad=0.12):
    if rng.random() < p_bad:
        return rng.choice(BAD)()
    if t[0] == "nn":
        return gen_value(rng, tm, t[1], depth, p_bad)
    r = rng.random()
    if r < 0.12 or depth > 4:
        return None
    if r < 0.15:
        return U
    if t[0] == "l":
        r = rng.random()
        if r < 0.2:
            return gen_value(rng, tm, t[1], depth + 1, p_bad)
        items = [gen_value(rng, tm, t[1], depth + 1, p_bad) for _ in range(rng.randint(0, 3))]
        if r < 0.3:
            return tuple(items)
        if r < 0.42:
            return wrap_iter(rng, items)  # set / frozenset / generator / deque / user iterable
        if r < 0.46:
            return WC(rng.choice(WC.MAPPINGS), {"f0": 1} if rng.random() < 0.5 else {})  # a Mapping is a list of one
        return items
    d = tm[t[1]]
    if d[0] in ("sc", "en"):
        v = gen_valid(rng, tm, t, 0)
        return None if v is _NOVAL else v
    oneof, fields = d[1], d[2]
    out = {}
    if oneof and rng.random() < 0.75:
        f = rng.choice(fields)
        out[f[0]] = gen_value(rng, tm, f[1], depth + 1, p_bad)
    else:
        for f in fields:
            if rng.random() < 0.7:
                out[f[0]] = gen_value(rng, tm, f[1], depth + 1, p_bad)
    if rng.random() < 0.06:
        out["zz"] = rng.choice([1, None, U])
    if rng.random() < 0.05:
        items = list(out.items())
        rng.shuffle(items)
        out = dict(items)
    if rng.random() < 0.14:
        return wrap_map(rng, out)  # non-dict Mapping (rejected) or dict subclass (accepted)
    if rng.random() < 0.03:
        return wrap_iter(rng, list(out.items()) if rng.random() < 0.5 else [out])  # an iterable where an object is expected
    return out


# ----------------------------------------------------------------------------- literals (plain data)


def is_name(s):
    return bool(s) and (s[0].isalpha() or s[0] == "_") and all(c.isalnum() or c == "_" for c in s) and s.isascii()


def to_lit(tm, t, v):
    """typed, independent conversion of a Python value to literal data"""
    if t is not None and t[0] == "nn":
        return to_lit(tm, t[1], v)
    if isinstance(v, WC):
        v = v.payload if isinstance(v.payload, dict) else list(v.payload)
    if v is None or v is U:
        return ("n",)
    if t is not None and t[0] == "l" and not isinstance(v, (list, tuple)):
        return to_lit(tm, t[1], v)
    if isinstance(v, bool):
        return ("b", v)
    if isinstance(v, int):
        return ("i", cv.istr(v))
    if isinstance(v, float):
        if not math.isfinite(v):
            return ("f", "1e1000" if v > 0 else "-1e1000") if v == v else ("n",)
        if t is not None and t[0] == "n" and t[1] in ("Int", "ID") and v == int(v):
            return ("i", cv.istr(int(v)))
        s = repr(v)
        return ("f", s if any(c in s for c in ".e") else s + ".0")
    core = t
    if isinstance(v, str):
        if core is not None and core[0] == "n" and tm.get(core[1], ("x",))[0] == "en" and is_name(v) and v not in ("true", "false", "null"):
            return ("e", v)
        return ("s", v)
    if isinstance(v, (list, tuple)):
        it = core[1] if core is not None and core[0] == "l" else core
        return ("l", [to_lit(tm, it, x) for x in v])
    if isinstance(v, dict):
        fmap = {}
        if core is not None and core[0] == "n" and tm.get(core[1], ("x",))[0] == "io":
            fmap = {f[0]: f[1] for f in tm[core[1]][2]}
        return ("o", [(k, to_lit(tm, fmap.get(k), x)) for k, x in v.items() if x is not U and is_name(k)])
    return ("s", "obj")


SPECIAL_LITS = [
    ("f", "1e1000"), ("f", "-1e1000"), ("i", "2147483648"), ("i", "-2147483649"), ("i", "2147483647"), ("i", "9" * 30), ("f", "1.5"),
    ("i", "0"), ("e", "A"), ("e", "Z"), ("s", "A"), ("s", ""), ("b", True), ("n",), ("l", []), ("o", []), ("i", "9007199254740993"),
    ("f", "1e-400"), ("f", "4.9e-324"), ("i", "-0"), ("l", [("n",)]), ("l", [("l", [("i", "1")])]), ("o", [("g0", ("n",))]),
    ("o", [("g0", ("i", "1")), ("g1", ("i", "2"))]), ("o", [("f0", ("i", "1")), ("f0", ("i", "2"))]), ("e", "true1"),
]


def mutate_lit(rng, lit, varnames, depth=0):
    r = rng.random()
    if varnames and r < 0.10:
        return ("v", rng.choice(varnames))
    if r < 0.13:
        return rng.choice(SPECIAL_LITS)
    if lit[0] == "l":
        return ("l", [mutate_lit(rng, x, varnames, depth + 1) for x in lit[1]])
    if lit[0] == "o":
        fs = [(k, mutate_lit(rng, x, varnames, depth + 1)) for k, x in lit[1]]
        if fs and rng.random() < 0.05:
            k, x = rng.choice(fs)
            fs.append((k, x))  # duplicate field name
        if rng.random() < 0.04:
            fs.append(("zz", ("i", "1")))
        if fs and rng.random() < 0.05:
            fs.pop(rng.randrange(len(fs)))
        return ("o", fs)
    return lit


def inject_var(rng, lit, name):
    """replace one randomly chosen node of the literal (root, list item or field value) by `$name`"""
    paths = []

    def walk_(l, path):
        paths.append(path)
        if l[0] == "l":
            for i, x in enumerate(l[1]):
                walk_(x, path + (i,))
        elif l[0] == "o":
            for i, (_, x) in enumerate(l[1]):
                walk_(x, path + (i,))

    walk_(lit, ())
    # prefer nested positions (the root is the "bare variable" case)
    nested = [p_ for p_ in paths if p_]
    target = rng.choice(nested) if nested and rng.random() < 0.85 else rng.choice(paths)

    def rebuild(l, path):
        if not path:
            return ("v", name)
        i = path[0]
        if l[0] == "l":
            return ("l", [rebuild(x, path[1:]) if j == i else x for j, x in enumerate(l[1])])
        return ("o", [(k, rebuild(x, path[1:])) if j == i else (k, x) for j, (k, x) in enumerate(l[1])])

    return rebuild(lit, target)


def lit_has_var(l):
    if l[0] == "v":
        return True
    if l[0] == "l":
        return any(lit_has_var(x) for x in l[1])
    if l[0] == "o":
        return any(lit_has_var(x) for _, x in l[1])
    return False


def lit_unique(l):
    if l[0] == "l":
        return all(lit_unique(x) for x in l[1])
    if l[0] == "o":
        ks = [k for k, _ in l[1]]
        return len(ks) == len(set(ks)) and all(lit_unique(x) for _, x in l[1])
    return True


def lit_strs(l, ints, floats):
    if l[0] == "i":
        ints.add(l[1])
    elif l[0] == "f":
        floats.add(l[1])
    elif l[0] == "l":
        for x in l[1]:
            lit_strs(x, ints, floats)
    elif l[0] == "o":
        for _, x in l[1]:
            lit_strs(x, ints, floats)


def enc_lit(l):
    k = l[0]
    if k in ("v", "i", "f", "s", "e"):
        return f"{k} {cv.enc_str(l[1])}"
    if k == "b":
        return "bt" if l[1] else "bf"
    if k == "n":
        return "n"
    if k == "l":
        return " ".join([f"l {len(l[1])}"] + [enc_lit(x) for x in l[1]])
    return " ".join([f"o {len(l[1])}"] + [cv.enc_str(a) + " " + enc_lit(x) for a, x in l[1]])


def enc_type(t):
    if t[0] == "n":
        return "n " + cv.enc_str(t[1])
    return ("l " if t[0] == "l" else "nn ") + enc_type(t[1])


# ----------------------------------------------------------------------------- materialising in graphql-core


class World:
    """a type map built as graphql-core types (inside a worker)"""

    def __init__(self, tm, flags):
        import graphql as g
        from graphql.language import ast as A
        from graphql.pyutils import Undefined
        from graphql.type import GraphQLDefaultInput

        self.g, self.A, self.Undefined = g, A, Undefined
        self.tm, self.flags = tm, flags
        self.reg = cv.Registry()
        self.named = {}
        for n, d in tm.items():
            if d[0] == "sc":
                self.named[n] = getattr(g, "GraphQL" + d[1])
            elif d[0] == "en":
                self.named[n] = g.GraphQLEnumType(n, {k: g.GraphQLEnumValue(self.mat(v)) for k, v in d[1]})
        for n, d in tm.items():
            if d[0] == "io":
                def thunk(d=d):
                    out = {}
                    for fname, t, dflt in d[2]:
                        kw = {}
                        if dflt is not None:
                            if dflt[0] == "dv":
                                kw["default"] = GraphQLDefaultInput(value=self.mat(dflt[1]))
                            elif dflt[0] == "dl":
                                kw["default"] = GraphQLDefaultInput(literal=self.node(dflt[1]))
                            else:
                                kw["default_value"] = self.mat(dflt[1])
                        out[fname] = g.GraphQLInputField(self.ty(t), **kw)
                    return out

                self.named[n] = g.GraphQLInputObjectType(n, thunk, is_one_of=d[1])
        self.schema = None

    def mat(self, v):
        if v is U:
            return self.Undefined
        if isinstance(v, WC):
            return v.build(self.mat(v.payload))
        if type(v) is list:
            return [self.mat(x) for x in v]
        if type(v) is tuple:
            return tuple(self.mat(x) for x in v)
        if type(v) is dict:
            return {k: self.mat(x) for k, x in v.items()}
        return v

    def ty(self, t):
        if t[0] == "n":
            return self.named[t[1]]
        if t[0] == "l":
            return self.g.GraphQLList(self.ty(t[1]))
        return self.g.GraphQLNonNull(self.ty(t[1]))

    def node(self, l):
        A = self.A
        k = l[0]
        if k == "v":
            return A.VariableNode(name=A.NameNode(value=l[1]))
        if k == "i":
            return A.IntValueNode(value=l[1])
        if k == "f":
            return A.FloatValueNode(value=l[1])
        if k == "s":
            return A.StringValueNode(value=l[1], block=False)
        if k == "b":
            return A.BooleanValueNode(value=l[1])
        if k == "n":
            return A.NullValueNode()
        if k == "e":
            return A.EnumValueNode(value=l[1])
        if k == "l":
            return A.ListValueNode(values=tuple(self.node(x) for x in l[1]))
        return A.ObjectValueNode(
            fields=tuple(A.ObjectFieldNode(name=A.NameNode(value=a), value=self.node(x)) for a, x in l[1])
        )

    def unnode(self, n):
        A = self.A
        if n is None:
            return None
        if isinstance(n, A.VariableNode):
            return ("v", n.name.value)
        if isinstance(n, A.IntValueNode):
            return ("i", n.value)
        if isinstance(n, A.FloatValueNode):
            return ("f", n.value)
        if isinstance(n, A.StringValueNode):
            return ("s", n.value)
        if isinstance(n, A.BooleanValueNode):
            return ("b", n.value)
        if isinstance(n, A.NullValueNode):
            return ("n",)
        if isinstance(n, A.EnumValueNode):
            return ("e", n.value)
        if isinstance(n, A.ListValueNode):
            return ("l", [self.unnode(x) for x in n.values])
        if isinstance(n, A.ObjectValueNode):
            return ("o", [(f.name.value, self.unnode(f.value)) for f in n.fields])
        return ("?", repr(n))

    def enc(self, v, short=False):
        return cv.enc_val(v, self.reg, self.Undefined, short)

    def enc_tm(self):
        parts = []
        for n, d in self.tm.items():
            if d[0] == "sc":
                parts.append(f"{cv.enc_str(n)} sc {d[1]}")
            elif d[0] == "en":
                parts.append(
                    f"{cv.enc_str(n)} en {len(d[1])} " + " ".join(cv.enc_str(k) + " " + self.enc(self.mat(v)) for k, v in d[1])
                )
            else:
                fs = []
                for fname, t, dflt in d[2]:
                    if dflt is None:
                        ds = "-"
                    elif dflt[0] == "dl":
                        ds = "dl " + enc_lit(dflt[1])
                    else:
                        ds = dflt[0] + " " + self.enc(self.mat(dflt[1]))
                    fs.append(f"{cv.enc_str(fname)} {enc_type(t)} {ds}")
                parts.append(f"{cv.enc_str(n)} io {1 if d[1] else 0} {len(d[2])} " + " ".join(fs))
        return f"{len(parts)} " + " ".join(parts)

    def base_conv_inputs(self):
        """values and literal strings inside the type map (defaults, enum values)"""
        vals, ints, floats = [], set(), set()
        for d in self.tm.values():
            if d[0] == "en":
                vals += [self.mat(v) for _, v in d[1]]
            elif d[0] == "io":
                for _, _, dflt in d[2]:
                    if dflt is None:
                        continue
                    if dflt[0] == "dl":
                        lit_strs(dflt[1], ints, floats)
                    else:
                        vals.append(self.mat(dflt[1]))
        return vals, ints, floats

    def conv(self, values=(), lits=()):
        vals, ints, floats = self.base_conv_inputs()
        ints, floats = set(ints), set(floats)
        for l in lits:
            if l is not None:
                lit_strs(l, ints, floats)
        return cv.conv_table(list(vals) + list(values), self.Undefined, extra_strs=ints | floats)

    def get_schema(self):
        if self.schema is None:
            g = self.g
            self.schema = g.GraphQLSchema(
                g.GraphQLObjectType("Query", {"f": g.GraphQLField(g.GraphQLInt)}),
                types=[t for n, t in self.named.items()],
            )
        return self.schema


def wf(flags):
    return not flags


# ----------------------------------------------------------------------------- conformance (the property's clause)


def conforms(w, t, c):
    tm = w.tm
    if t[0] == "nn":
        return c is not None and c is not w.Undefined and conforms(w, t[1], c)
    if c is None:
        return True
    if t[0] == "l":
        return type(c) is list and all(conforms(w, t[1], x) for x in c)
    d = tm[t[1]]
    if d[0] == "sc":
        s = d[1]
        if s == "Int":
            return type(c) is int and -(2**31) <= c <= 2**31 - 1
        if s == "Float":
            return type(c) is float and math.isfinite(c)
        if s == "Boolean":
            return type(c) is bool
        return type(c) is str
    if d[0] == "en":
        for _, v in d[1]:
            v = w.mat(v)
            if v is c or (type(v) is type(c) and v == c):
                return True
        return False
    if type(c) is not dict:
        return False
    names = [f[0] for f in d[2]]
    keys = list(c)
    if [k for k in names if k in c] != keys:  # declared fields only, in declared order
        return False
    for fname, ft, dflt in d[2]:
        if fname in c:
            if not conforms(w, ft, c[fname]):
                return False
        else:
            if ft[0] == "nn":
                return False  # a non-null field is always present
            if dflt is not None and not (dflt[0] == "lg" and dflt[1] is U):
                return False  # defaults applied
    if d[1]:
        return len(c) == 1 and next(iter(c.values())) is not None
    return True


# ----------------------------------------------------------------------------- one worker


def _paths(errs):
    out = []
    for p in errs:
        out.append("/".join(("k" + ".".join(str(ord(c)) for c in s)) if isinstance(s, str) else f"i{s}" for s in p) or ".")
    return "E " + " ".join(sorted(out)) if out else "E"


def _norm_paths(s):
    parts = s.split(" ")
    return " ".join(["E"] + sorted(parts[1:]))


def _call(fn, *a):
    try:
        return ("ok", fn(*a))
    except Exception as e:  # noqa: BLE001
        return ("crash", type(e).__name__)


def _work(args):
    chunk, seed, tier, drv, n_maps, per_map = args
    fw.use_repo()
    from graphql import GraphQLError, parse, print_ast, validate
    from graphql.execution.values import (
        FragmentVariableValues,
        FragmentVariableValueSource,
        VariableValues,
        VariableValueSource,
        get_variable_values,
    )
    from graphql.execution.get_variable_signature import GraphQLVariableSignature
    from graphql.pyutils import Undefined
    from graphql.type import GraphQLArgument, GraphQLDefaultInput, GraphQLField, GraphQLInt, GraphQLObjectType, GraphQLSchema
    from graphql.utilities import (
        coerce_input_literal,
        coerce_input_value,
        validate_input_literal,
        validate_input_value,
        value_to_literal,
    )
    from graphql.validation import ValuesOfCorrectTypeRule

    rng = random.Random(f"{seed}:c15:{chunk}")
    rep = Report()
    driver = fw.Driver(drv) if drv else None
    lines, meta = [], []
    st = rep.stats

    def bump(k, n=1):
        st[k] = st.get(k, 0) + n

    def add(line, comp, inp, impl):
        lines.append(line)
        meta.append((comp, inp, impl))

    def showres(r):
        if r[0] == "crash":
            return "crash " + r[1]
        return "ok " + w.enc(r[1], short=True)

    def valerrs(v, T):
        errs = []
        r = _call(validate_input_value, v, T, lambda e, p: errs.append(list(p)))
        return ("crash " + r[1]) if r[0] == "crash" else _paths(errs)

    def literrs(node, T, vv, fvv=None):
        errs = []
        r = _call(validate_input_literal, node, T, lambda e, p: errs.append(list(p)), vv, fvv)
        return ("crash " + r[1]) if r[0] == "crash" else _paths(errs)

    for mi in range(n_maps):
        tm, flags = gen_typemap(rng)
        w = World(tm, flags)
        good = wf(flags)
        bump("typemaps")
        for fl in flags:
            bump("typemaps:" + fl)
        etm = w.enc_tm()
        names = list(tm)
        objn = [n for n in names if tm[n][0] == "io"]
        # ------------------------------------------------ variable maps (through the real get_variable_values)
        varmaps = [None]
        for _ in range(8):
            defs = []
            inputs = {}
            for vn in rng.sample(["a", "b", "c", "d"], rng.randint(1, 4)):
                t = gen_type(rng, names + objn * 4)
                unknown = rng.random() < 0.05
                dl = None
                if rng.random() < 0.35 and not unknown:
                    v = gen_valid(rng, tm, t, 0)
                    if v is not _NOVAL:
                        dl = to_lit(tm, t, v)
                        if rng.random() < 0.15:
                            dl = rng.choice(SPECIAL_LITS)
                defs.append((vn, None if unknown else t, dl))
                r = rng.random()
                if r < 0.6:
                    # a generator can be traversed once only (coercion, then validation): not a value
                    inputs[vn] = strip_gen(gen_value(rng, tm, t, 0, 0.08))
                elif r < 0.65:
                    inputs[vn] = U

            def type_text(t):
                if t[0] == "n":
                    return t[1]
                if t[0] == "l":
                    return "[" + type_text(t[1]) + "]"
                return type_text(t[1]) + "!"

            text = "query (" + ", ".join(
                f"${vn}: {'Query' if t is None else type_text(t)}" + ("" if dl is None else " = " + print_ast(w.node(dl)))
                for vn, t, dl in defs
            ) + ") { f }"
            try:
                op = parse(text).definitions[0]
            except GraphQLError:
                bump("vars:unparsable-default")
                continue
            minputs = w.mat(inputs)
            res = _call(get_variable_values, w.get_schema(), op.variable_definitions, minputs)
            rep.evaluations += 1
            inp = {"typemap": _show_tm(tm), "var_defs": text, "inputs": _c16.srepr(inputs)}
            if res[0] == "crash":
                impl = "crash " + res[1]
            elif isinstance(res[1], list):
                impl = "errs"
                bump("vars:errors")
            else:
                impl = "vals " + w.enc(res[1].coerced, short=True)
                bump("vars:values")
                varmaps.append(res[1])
            # oracle: variables_total
            if good:
                if res[0] == "crash":
                    rep.failures.append(Failure("variables-raise", "get_variable_values raised instead of returning errors or values", inp, impl, "errors or values", "C15 variables_total"))
                elif isinstance(res[1], list):
                    if not res[1] or not all(isinstance(e, GraphQLError) for e in res[1]):
                        rep.failures.append(Failure("variables-empty-errors", "get_variable_values returned an empty/ill-typed error list", inp, repr(res[1])[:200], "non-empty list of GraphQLError", "C15 variables_total"))
                else:
                    for vn, t, dl in defs:
                        provided = vn in minputs and minputs[vn] is not Undefined
                        if t is not None and (provided or dl is not None) and vn not in res[1].coerced:
                            rep.failures.append(Failure("variables-dropped", "a provided/defaulted variable has neither a value nor an error", {**inp, "variable": vn}, impl, "a coerced value for the variable", "C15 variables_total"))
                        if t is not None and vn in res[1].coerced and not conforms(w, t, res[1].coerced[vn]):
                            rep.failures.append(Failure("variables-conform", "a coerced variable value does not conform to its type", {**inp, "variable": vn}, _c16.srepr(res[1].coerced[vn]), "conforming value", "C15 coerced_conforms"))
            enc_defs = f"{len(defs)} " + " ".join(
                f"{cv.enc_str(vn)} {'-' if t is None else enc_type(t)} {'-' if dl is None else enc_lit(dl)}" for vn, t, dl in defs
            )
            conv = w.conv([w.mat(flatten(inputs))], [dl for _, _, dl in defs])
            model_impl = impl if not impl.startswith("errs") else "errs"
            add(f"gv {conv} {etm} {enc_defs} {enc_pv(w, inputs)}", "get_variable_values", inp, model_impl)
        # hand-made variable map (values not tied to a type)
        varmaps.append(VariableValues(
            {k: VariableValueSource(GraphQLVariableSignature(k, GraphQLInt, None), v) for k, v in (("a", None), ("b", 1), ("c", "A"))},
            {"a": None, "b": 1, "c": "A"},
        ))

        # fragment variable values (experimental fragment arguments): names shared with the operation
        # variables, each declared with a value, with an explicit null, or without any value
        fragmaps = [None]
        for _ in range(3):
            fsrc, fco = {}, {}
            for vn in rng.sample(["a", "b", "c", "d", "zz"], rng.randint(1, 4)):
                ft = gen_type(rng, names + objn)
                sig = GraphQLVariableSignature(vn, w.ty(ft), None)
                r = rng.random()
                cvv = Undefined
                if r < 0.45:
                    gv_ = gen_valid(rng, tm, ft, 0)
                    if gv_ is not _NOVAL:
                        rr = _call(coerce_input_value, w.mat(gv_), w.ty(ft))
                        if rr[0] == "ok":
                            cvv = rr[1]
                elif r < 0.55:
                    cvv = None
                if cvv is Undefined:
                    fsrc[vn] = FragmentVariableValueSource(sig)  # declared, no value
                else:
                    fsrc[vn] = FragmentVariableValueSource(sig, w.node(("n",)))
                    fco[vn] = cvv
            fragmaps.append(FragmentVariableValues(fsrc, fco))

        def enc_fvars(fvv):
            if fvv is None:
                return "-"
            ks = list(fvv.sources)
            co = [f"{cv.enc_str(k)} {w.enc(v)}" for k, v in fvv.coerced.items()]
            return f"+ {len(ks)} " + " ".join(cv.enc_str(k) for k in ks) + f" {len(co)}" + ("" if not co else " " + " ".join(co))

        def scoped_has(vmm, fvv, name):
            """the property's notion of scope: a fragment-declared name shadows the operation variable"""
            if fvv is not None and name in fvv.sources:
                return name in fvv.coerced
            return vmm is not None and name in vmm.coerced

        def enc_vars(vv):
            if vv is None:
                return "-"
            srcs = []
            for k, s in vv.sources.items():
                srcs.append(f"{cv.enc_str(k)} n {cv.enc_str('Int')} - {w.enc(s.value)}")
            co = [f"{cv.enc_str(k)} {w.enc(v)}" for k, v in vv.coerced.items()]
            return f"+ {len(srcs)} " + " ".join(srcs) + f" {len(co)} " + " ".join(co) if srcs else f"+ 0 {len(co)} " + " ".join(co)

        # ------------------------------------------------ (type, value) and (type, literal, vars)
        ruleq = []
        for ci in range(per_map):
            t = gen_type(rng, names + objn * 3)
            T = w.ty(t)
            pv = gen_value(rng, tm, t)
            inp = {"typemap": _show_tm(tm), "type": _show_t(t), "value": _c16.srepr(pv)}
            rc = _call(coerce_input_value, w.mat(pv), T)
            ve = valerrs(w.mat(pv), T)
            rl = _call(value_to_literal, w.mat(pv), T)
            rep.evaluations += 3
            conv = w.conv([w.mat(flatten(pv))] + ([rc[1]] if rc[0] == "ok" else []))
            venc = enc_pv(w, pv)
            if has_kind(pv, WC.MAPPINGS):
                bump("value:has-non-dict-mapping")
            if has_kind(pv, WC.ITERS):
                bump("value:has-non-list-iterable")
            if has_kind(pv, WC.DICTS):
                bump("value:has-dict-subclass")
            add(f"cv {conv} {etm} {enc_type(t)} {venc}", "coerce_input_value", inp, showres(rc))
            add(f"vv {conv} {etm} {enc_type(t)} {venc}", "validate_input_value", inp, ve)
            litdata = w.unnode(rl[1]) if rl[0] == "ok" else None
            impl_tl = ("crash " + rl[1]) if rl[0] == "crash" else ("none" if litdata is None else "lit " + enc_lit(litdata))
            add(f"tl {conv} {etm} {enc_type(t)} {venc}", "value_to_literal", inp, impl_tl)
            ok = rc[0] == "ok" and rc[1] is not Undefined
            bump("value:ok" if ok else ("value:crash" if rc[0] == "crash" else "value:invalid"))
            if ok and isinstance(rc[1], (dict, list)):
                rep.nontrivial += 1
            if len(rep.samples) < 4 and ok and isinstance(rc[1], dict) and rc[1]:
                rep.samples.append({**inp, "coerced": _c16.srepr(rc[1])})
            if good:
                if rc[0] == "crash" or ve.startswith("crash") or rl[0] == "crash":
                    rep.failures.append(Failure("value-raise", "coerce_input_value / validate_input_value / value_to_literal raised", inp, [showres(rc), ve, impl_tl], "no exception", "C15 coerce_iff_valid"))
                elif ok != (ve == "E"):
                    rep.failures.append(Failure("value-iff", "coerce_input_value succeeds iff validate_input_value reports nothing: violated", inp, {"coerced": showres(rc), "errors": ve}, "agreement", "C15 coerce_iff_valid"))
                elif ok and not conforms(w, t, rc[1]):
                    rep.failures.append(Failure("value-conform", "the coerced value does not conform to the type", inp, _c16.srepr(rc[1]), "conforming value", "C15 coerced_conforms"))
            # literal round trip
            if ok and rl[0] == "ok":
                if litdata is None:
                    if good:
                        rep.failures.append(Failure("roundtrip-none", "value_to_literal rejects a value that coerce_input_value accepts", inp, "None", "a literal", "C15 literal_roundtrip"))
                else:
                    r2 = _call(coerce_input_literal, rl[1], T)
                    rep.evaluations += 1
                    conv2 = w.conv([], [litdata])
                    add(f"cl {conv2} {etm} - - {enc_type(t)} {enc_lit(litdata)}", "coerce_input_literal", {**inp, "literal": _show_l(litdata)}, showres(r2))
                    if good and (r2[0] != "ok" or w.enc(r2[1], short=True) != w.enc(rc[1], short=True)):
                        rep.failures.append(Failure("roundtrip-differs", "coercing value_to_literal(v) does not give coerce_input_value(v)", {**inp, "literal": _show_l(litdata)}, showres(r2), showres(rc), "C15 literal_roundtrip"))
            # ---- literals
            base = to_lit(tm, t, pv)
            vm = rng.choice(varmaps)
            fv = rng.choice(fragmaps) if rng.random() < 0.45 else None
            varnames = (list(vm.coerced) if vm is not None else []) + (list(fv.sources) if fv is not None else []) + ["zz", "a"]
            lit = mutate_lit(rng, base, varnames if rng.random() < 0.5 else [])
            if rng.random() < 0.1:
                lit = rng.choice(SPECIAL_LITS)
            if fv is not None:
                # a fragment-declared name (with or without a value, shadowing or not) used inside the literal
                shadow = [k for k in fv.sources if k not in fv.coerced and vm is not None and vm.coerced.get(k) is not None]
                pick = shadow if shadow and rng.random() < 0.7 else list(fv.sources)
                if pick and rng.random() < 0.6:
                    lit = inject_var(rng, lit if lit[0] in ("l", "o") or rng.random() < 0.5 else base, rng.choice(pick))
            node = w.node(lit)
            hasvar = lit_has_var(lit)
            linp = {"typemap": _show_tm(tm), "type": _show_t(t), "literal": _show_l(lit), "variables": None if vm is None else _c16.srepr(dict(vm.coerced))}
            if fv is not None:
                linp["fragment_variables"] = {"declared": list(fv.sources), "coerced": _c16.srepr(dict(fv.coerced))}
                bump("literal:fragment-vars")
                if vm is not None and any(k in vm.coerced and k not in fv.coerced for k in fv.sources):
                    bump("literal:fragment-var-shadows-operation-var")
            rcl = _call(coerce_input_literal, node, T, vm, fv)
            vel = literrs(node, T, vm, fv)
            rep.evaluations += 2
            convl = w.conv(([dict(vm.coerced)] if vm is not None else []) + ([dict(fv.coerced)] if fv is not None else [])
                           + ([rcl[1]] if rcl[0] == "ok" else []), [lit])
            ev = enc_vars(vm) + " " + enc_fvars(fv)
            add(f"cl {convl} {etm} {ev} {enc_type(t)} {enc_lit(lit)}", "coerce_input_literal", linp, showres(rcl))
            add(f"vl {convl} {etm} {ev} {enc_type(t)} {enc_lit(lit)}", "validate_input_literal", linp, vel)
            okl = rcl[0] == "ok" and rcl[1] is not Undefined
            bump(("literal:ok" if okl else "literal:invalid") + (":var" if hasvar else ""))
            top_missing = lit[0] == "v" and not scoped_has(vm, fv, lit[1])
            applicable = good and lit_unique(lit) and not top_missing and (vm is not None or fv is not None or not hasvar)
            if applicable:
                if rcl[0] == "crash" or vel.startswith("crash"):
                    rep.failures.append(Failure("literal-raise", "coerce_input_literal / validate_input_literal raised", linp, [showres(rcl), vel], "no exception", "C15 coerce_iff_valid (literals)"))
                elif okl != (vel == "E"):
                    rep.failures.append(Failure("literal-iff", "coerce_input_literal succeeds iff validate_input_literal reports nothing: violated", linp, {"coerced": showres(rcl), "errors": vel}, "agreement", "C15 coerce_iff_valid (literals)"))
                elif okl and not hasvar and not conforms(w, t, rcl[1]):
                    rep.failures.append(Failure("literal-conform", "the coerced literal does not conform to the type", linp, _c16.srepr(rcl[1]), "conforming value", "C15 coerced_conforms"))
            elif good and not lit_unique(lit):
                bump("literal:duplicate-fields")
            # static validation + the rule, for the same literal
            if vm is not None or fv is not None:
                vel0 = literrs(node, T, None)
                add(f"vl {convl} {etm} - - {enc_type(t)} {enc_lit(lit)}", "validate_input_literal(static)", linp, vel0)
            else:
                vel0 = vel
            if good and len(ruleq) < 24:
                rc0 = rcl if (vm is None and fv is None) else _call(coerce_input_literal, node, T)
                ruleq.append((t, T, lit, node, vel0, rc0, linp))
        # ------------------------------------------------ the validation rule, one schema per type map
        if good and ruleq:
            fields = {f"q{i}": GraphQLField(GraphQLInt, args={"a": GraphQLArgument(T)}) for i, (_, T, *_r) in enumerate(ruleq)}
            try:
                schema = GraphQLSchema(GraphQLObjectType("Query", fields))
                for i, (t, T, lit, node, vel0, rc0, linp) in enumerate(ruleq):
                    text = f"{{ q{i}(a: {print_ast(node)}) }}"
                    try:
                        doc = parse(text)
                    except GraphQLError:
                        bump("rule:unparsable")
                        continue
                    errs = validate(schema, doc, [ValuesOfCorrectTypeRule])
                    rep.evaluations += 1
                    bump("rule:accepts" if not errs else "rule:rejects")
                    n_model = 0 if vel0 == "E" else len(vel0.split(" ")) - 1
                    if len(errs) != n_model:
                        rep.disagreements.append(Disagreement("ValuesOfCorrectTypeRule", {**linp, "document": text}, f"{len(errs)} errors", f"static validate_input_literal: {n_model} errors"))
                    if not lit_has_var(lit) and lit_unique(lit):
                        okc = rc0[0] == "ok" and rc0[1] is not Undefined
                        if okc != (not errs):
                            rep.failures.append(Failure("rule-iff", "ValuesOfCorrectTypeRule accepts a constant argument iff its coercion succeeds: violated", {**linp, "document": text}, {"rule_errors": len(errs), "coerced": showres(rc0)}, "agreement", "C15 rule_iff_coerce"))
            except TypeError as e:
                bump("rule:schema-invalid")
                if len(rep.notes) < 3:
                    rep.notes.append(f"schema rejected by validate(): {str(e)[:160]}")
    outs = driver.run(lines) if driver else [None] * len(lines)
    for (comp, inp, impl), out in zip(meta, outs):
        if out is None:
            continue
        if out.startswith("bad-"):
            raise fw.InfraError(f"driver could not parse a case: {out}: {comp} {inp}")
        if "63 77 73 83 83 63" in out or "999999999999" in out:
            raise fw.InfraError(f"conversion table incomplete for {comp} {inp}")
        if comp.startswith("validate"):
            out = _norm_paths(out) if out.startswith("E") else out
        if comp == "get_variable_values" and out.startswith("errs"):
            out = "errs"
        if out != impl:
            rep.disagreements.append(Disagreement(comp, inp, impl, out))
    return rep


def _show_t(t):
    if t[0] == "n":
        return t[1]
    if t[0] == "l":
        return "[" + _show_t(t[1]) + "]"
    return _show_t(t[1]) + "!"


def _show_l(l):
    k = l[0]
    if k == "v":
        return "$" + l[1]
    if k in ("i", "f", "e"):
        return l[1] if len(l[1]) < 40 else l[1][:20] + "..."
    if k == "s":
        return repr(l[1])
    if k == "b":
        return "true" if l[1] else "false"
    if k == "n":
        return "null"
    if k == "l":
        return "[" + ", ".join(_show_l(x) for x in l[1]) + "]"
    return "{" + ", ".join(f"{a}: {_show_l(x)}" for a, x in l[1]) + "}"


def _show_tm(tm):
    out = []
    for n, d in tm.items():
        if d[0] == "en" and n != "E0":
            out.append(f"enum {n} {{{', '.join(f'{k}={v!r}' for k, v in d[1])}}}")
        elif d[0] == "io":
            fs = []
            for fname, t, dflt in d[2]:
                ds = "" if dflt is None else (" = " + (_show_l(dflt[1]) if dflt[0] == "dl" else f"{dflt[0]}:{_c16.srepr(dflt[1], 60)}"))
                fs.append(f"{fname}: {_show_t(t)}{ds}")
            out.append(f"input {n}{' @oneOf' if d[1] else ''} {{{', '.join(fs)}}}")
    return "; ".join(out)


# ----------------------------------------------------------------------------- corpus (fixed witnesses, always first)


def _corpus(drv):
    """the defects found while building the check, on the implementation directly"""
    fw.use_repo()
    from graphql import GraphQLFloat, GraphQLInt, parse, parse_value
    from graphql.execution.values import get_variable_values
    from graphql import build_schema
    from graphql.pyutils import Undefined
    from graphql.utilities import coerce_input_literal, validate_input_literal

    rep = Report()
    # W1: a Float literal beyond the double range coerced to inf (not a finite Float)
    import json

    wit = json.loads((fw.VERIF / "corpus" / "C15" / "witnesses.json").read_text())
    for text in list(wit["float_literals_beyond_double_range"]) + ["1" + "0" * 400]:
        r = coerce_input_literal(parse_value(text), GraphQLFloat)
        errs = []
        validate_input_literal(parse_value(text), GraphQLFloat, lambda e, p: errs.append(p))
        rep.evaluations += 1
        inp = {"type": "Float", "literal": text[:12]}
        if r is not Undefined and not (type(r) is float and math.isfinite(r)):
            rep.failures.append(Failure("float-literal-nonfinite", "coerce_input_literal(Float) yields a non-finite float", inp, repr(r), "Undefined (invalid) or a finite float", "C15 coerced_conforms"))
        if (r is not Undefined) != (not errs):
            rep.failures.append(Failure("literal-iff", "coerce/validate disagree on a Float literal", inp, [repr(r), len(errs)], "agreement", "C15 coerce_iff_valid (literals)"))
    # W2: an int beyond CPython's str-conversion limit as variable value: errors, not an exception
    schema = build_schema("type Query { f(x: Int): Int }")
    op = parse("query ($x: Int) { f(x: $x) }").definitions[0]
    for digits in wit["huge_int_variable_digits"]:
        rep.evaluations += 1
        try:
            res = get_variable_values(schema, op.variable_definitions, {"x": 10 ** (digits - 1)})
            if not (isinstance(res, list) and res):
                rep.failures.append(Failure("variables-dropped", "huge int variable neither coerced nor reported", {"x": f"10**{digits - 1}"}, repr(res)[:100], "errors", "C15 variables_total"))
        except Exception as e:  # noqa: BLE001
            rep.failures.append(Failure("variables-raise", "get_variable_values raised instead of returning errors (int beyond the str-conversion limit: inspect() raises ValueError)", {"query": "query ($x: Int) { f(x: $x) }", "variables": {"x": f"10**{digits - 1}"}}, type(e).__name__, "a list of GraphQLError", "C15 variables_total"))
    return rep


def explore(ctx) -> Report:
    fw.use_repo()
    drv = DRIVER if ctx.driver else None
    rep = _corpus(drv)
    if ctx.tier == "quick":
        chunks, n_maps, per_map = fw.WORKERS * 2, 5, 28
    else:
        chunks, n_maps, per_map = fw.WORKERS * 6, 40, 55
    if ctx.escalate:
        n_maps *= 2
    jobs = [(i, ctx.seed, ctx.tier, drv, n_maps, per_map) for i in range(chunks)]
    for r in fw.pmap(_work, jobs):
        rep.merge(r)
    rep.rule = (
        f"{chunks * n_maps} generated type maps (5 scalars, 3 enums incl. int/bool/list/Undefined internal values, 1-4 possibly "
        f"recursive input objects with value/literal/legacy defaults, one OneOf object; ~10% deliberately ill-formed: invalid "
        f"default, OneOf default, enum value None) x {per_map} (type expression, value, literal, variable map) tuples each; values "
        "mostly valid with seeded corruption from a 64-element zoo (bool/int/float edges, huge ints, nan/inf, Undefined, wrong "
        "containers, unknown keys) and, at every list/object position, seeded substitution of the container by a tuple / set / "
        "frozenset / generator / deque / user iterable, by a non-dict Mapping (MappingProxyType, ChainMap, UserDict, user Mapping: "
        "must be rejected) or by a dict subclass (OrderedDict, defaultdict, subclass with __missing__: must be accepted); literals derived from values with seeded mutation (variables, nulls, duplicates, unknown "
        "fields, out-of-range numbers); variable maps from the real get_variable_values. non-trivial = coerced result is a dict or list"
    )
    return rep


def search(ctx, rep) -> Report:
    if ctx.tier == "quick":
        ctx2 = fw.Ctx(ctx.prop, "quick", ctx.seed + 7919, ctx.rng, ctx.driver, ctx.model_ok, escalate=True, t0=ctx.t0)
        extra = explore(ctx2)
        extra.disagreements = []
        return extra
    return Report()


def replay(ctx, payload) -> Report:
    rep = explore(ctx)
    fp = payload.get("fingerprint")
    if fp:
        rep.failures = [f for f in rep.failures if f.fingerprint == fp] or rep.failures
    return rep
