"""C07 — a subscription maps source events to responses one-to-one and in order."""
from __future__ import annotations

import hashlib
import json
from pathlib import Path

from tools import fw
from tools.fw import Disagreement, Failure, Report

ID = "C07"
PROPS = "Gql.Props.C07"
DRIVER = "drv_c07"
LEVEL = "proof"
LEVEL_TEXT = (
    "Lean theorems about the subscription pipeline as a transition system over producer pushes, consumer "
    "pulls and close, for every source (any event list, ending or raising after any number of events), "
    "every per-event execution function and every interleaving, with no bound: the delivered responses are "
    "always a prefix of events.map exec, a finished stream delivered exactly events.map exec followed by the "
    "source's end or its exception, every schedule can be completed (nothing is lost or stuck), creation "
    "failures give one errors-only result and no iterator, and a response carries only its own event's "
    "errors. The model is tied to subscribe()/map_async_iterable by a correspondence run on generated "
    "documents, payloads, timings and failure positions; the property itself (response i == execute() with "
    "event i as root value, count, order, termination) is evaluated on the implementation for every case."
)
LEVEL_NOTE = (
    "Per-event execution is a parameter of the theorems (the executor is C02's model); on the implementation "
    "the oracle compares each response with the implementation's own execute() on the same event, which is "
    "the relation the property states. Trusted: Lean kernel; hand-written model Gql/Async/Subscribe.lean "
    "(tied by correspondence); harness (stepped asyncio loop, harness sources). Overlapping __anext__ calls "
    "on the response generator (a RuntimeError of Python async generators) are not part of the schedules."
)
TECHNIQUE = "Lean 4 theorems about an executable transition-system model + differential correspondence + implementation-side oracle"
TRUSTED = [
    "hand-written Lean model Gql/Async/Subscribe.lean of subscribe / create_source_event_stream / "
    "map_source_to_response_event / map_async_iterable / build_per_event_executor, tied to the code by the "
    "correspondence run (delivered outcome sequence per schedule, creation outcome per fault kind)",
    "per-event execution is abstract in the theorems; on the implementation each response is compared "
    "with execute() of the same operation on that event (same executor class as subscribe uses)",
    "asyncio stepping harness tools/c07_loop.py (ready-queue idle detection, no timers)",
]
ASSUMPTIONS = [
    "the consumer never calls __anext__/aclose while a previous __anext__ of the response stream is still running",
    "resolvers are pure functions of their source value (so execute() on the event is a well-defined reference)",
    "source iterators behave as async iterators: after raising or StopAsyncIteration they are not asked again",
]
EXPLANATION = (
    "Theorems: responses_prefix, responses_eq_map, source_error_after_prefix, ends_with_source, "
    "no_early_end, drain_finishes (all interleavings), creation_failure_single_response, isolation. "
    "Correspondence: model outcome sequence vs subscribe() on a stepped loop. Oracle: response i == execute(event i)."
)

FAULT_OF = {
    "raises": ("resolverRaises", 0),
    "raises_async": ("resolverRaises", 1),
    "raises_gql": ("resolverRaises", 0),
    "returns_error": ("resolverReturnsError", 0),
    "returns_error_async": ("resolverReturnsError", 1),
    "not_iterable": ("notAsyncIterable", 0),
    "not_iterable_async": ("notAsyncIterable", 1),
    "sync_iterable": ("notAsyncIterable", 0),
    "unknown_field": ("unknownField", 0),
    "arg_literal": ("argumentCoercion", 0),
    "arg_missing_var": ("argumentCoercion", 0),
    "arg_required_null": ("argumentCoercion", 0),
    "no_subscription_type": ("noSubscriptionType", 0),
    "all_skipped": ("emptyRootSelection", 0),
}


def _model_line(sc, obs):
    create = sc["create"]
    if create == "ok":
        refs = obs["refs"]
        first = {}
        nums = []
        for i, r in enumerate(refs):
            cls = first.setdefault(r, i)
            nerr = len(json.loads(r)["errors"] or [])
            nums += [str(cls), str(nerr)]
        return f"sub {sc['term']} {len(refs)} {' '.join(nums)} | {' '.join(obs['ops'])}"
    if create == "var_error":
        return f"req build variableCoercion {sc.get('n_var_errors', 1)}"
    if create == "no_operation":
        return "req build noOperation"
    k, aw = FAULT_OF[create]
    return f"req fault {k} {aw}"


def _impl_line(sc, obs):
    if obs["kind"] == "hang":
        return "hang"
    if obs["kind"] == "raise":
        return f"raise {obs.get('raised')}"
    if obs["kind"] == "result":
        return f"result {obs['n_errors']}" if obs["data_is_none"] else "result-with-data"
    if obs["kind"] != "iter":
        return f"other {obs.get('repr')}"
    first = {}
    for i, r in enumerate(obs["refs"]):
        first.setdefault(r, i)
    out = []
    for o in obs["outcomes"]:
        if o[0] == "resp":
            cls = first.get(o[1], "?")
            nerr = len(json.loads(o[1])["errors"] or [])
            out.append(f"r{cls}/{nerr}")
        elif o[0] == "done":
            out.append("D")
        else:
            out.append("X" if o[1] == "same" else f"X:{o[1]}")
    return "stream " + " ".join(out)


def _brief(sc):
    return {k: sc[k] for k in ("doc", "variables", "create", "payloads", "term", "src", "plan", "first", "tag", "n_var_errors", "aclose_returns") if k in sc}


def _oracle(sc, obs, rep):
    """The property evaluated on the implementation's observation."""
    inp = _brief(sc)
    src = "C07 property text; reference = the implementation's execute() with event i as root value"

    def fail(fp, what, observed=None, expected=None):
        rep.failures.append(Failure(fp, what, inp, observed, expected, src))

    if obs["kind"] == "hang":
        fail("subscription-hang", "the response stream does not make progress although the source delivered (watchdog)")
        return
    if sc["create"] != "ok":
        if obs["kind"] == "raise":
            fail("subscribe-raises-instead-of-errors-only", "a failure while creating the source raises out of subscribe()", obs.get("raised"), "ExecutionResult(data=None, errors=[...])")
        elif obs["kind"] != "result":
            fail("creation-failure-gives-iterator", "a failure while creating the source does not yield a single errors-only response", obs["kind"], "ExecutionResult")
        elif not obs["data_is_none"] or obs["n_errors"] < 1:
            fail("creation-failure-not-errors-only", "the creation-failure response is not errors-only", obs.get("result"), "data None, >= 1 error")
        elif sc["create"] != "var_error" and obs["n_errors"] != 1:
            fail("creation-failure-error-count", "creation failure reports more than the one error", obs.get("result"), "1 error")
        return
    if obs["kind"] != "iter":
        fail("subscribe-no-iterator", "a working source does not give a response stream", _impl_line(sc, obs), "async iterator")
        return
    refs = obs["refs"]
    outs = obs["outcomes"]
    closed = "C" in obs["ops"]
    resps = [o[1] for o in outs if o[0] == "resp"]
    final = obs.get("held_final")
    if final is not None and final != resps:
        i = next((i for i in range(min(len(final), len(resps))) if final[i] != resps[i]), 0)
        fail("response-changes-after-delivery", f"response {i}, held by the consumer, is different after later events were processed", final[i] if i < len(final) else None, resps[i] if i < len(resps) else None)
        return
    # position of the first non-response
    k = next((i for i, o in enumerate(outs) if o[0] != "resp"), len(outs))
    if any(o[0] == "resp" for o in outs[k:]):
        fail("response-after-end", "a response is delivered after the stream ended or raised", _impl_line(sc, obs))
        return
    n = len(refs)
    if closed:
        if resps != refs[: len(resps)]:
            fail("response-differs-from-execute", "before the consumer closed, response i is not execute() of event i", resps[:3], refs[:3])
        if any(o[0] == "exc" for o in outs):
            fail("exception-after-close", "an exception surfaces although the consumer closed the stream", _impl_line(sc, obs))
        return
    if resps != refs:
        if len(resps) != n:
            fail("response-count", f"{len(resps)} responses for {n} source events", _impl_line(sc, obs), f"{n} responses")
        elif sorted(resps) == sorted(refs):
            fail("response-order", "responses are not in source order", _impl_line(sc, obs), "source order")
        else:
            i = next(i for i in range(n) if resps[i] != refs[i])
            fail("response-differs-from-execute", f"response {i} is not execute() of the operation with event {i} as root value", resps[i], refs[i])
        return
    term = outs[k] if k < len(outs) else None
    if sc["term"] == "raise":
        if term is None or term[0] != "exc" or term[1] != "same":
            fail("source-exception-not-surfaced", f"the source raised after {n} events; the consumer did not get that exception after {n} responses", term, ["exc", "same"])
    else:
        if term is None or term[0] != "done":
            fail("stream-does-not-end-with-source", f"the source ended after {n} events; the stream did not end after {n} responses", term, ["done"])
    if any(o[0] != "done" for o in outs[k + 1 :]):
        fail("not-finished-after-end", "the stream yields something other than its end after it terminated", _impl_line(sc, obs))


def _work(args):
    scenarios, drv = args
    fw.use_repo()
    from tools import c07_loop as L

    rep = Report()
    lines, metas = [], []
    seen = set()
    st = rep.stats
    for sc in scenarios:
        obs = L.run_scenario(sc)
        rep.evaluations += 1
        _oracle(sc, obs, rep)
        lines.append(_model_line(sc, obs))
        metas.append((sc, obs))
        # distribution
        n = len(sc["payloads"])
        st[f"events_{min(n, 9) if n < 9 else '9+'}"] = st.get(f"events_{min(n, 9) if n < 9 else '9+'}", 0) + 1
        st[f"create_{sc['create']}"] = st.get(f"create_{sc['create']}", 0) + 1
        if sc["create"] == "ok":
            st[f"term_{sc['term']}"] = st.get(f"term_{sc['term']}", 0) + 1
            st[f"src_{sc['src']}"] = st.get(f"src_{sc['src']}", 0) + 1
            errs = sum(1 for r in obs["refs"] if json.loads(r)["errors"])
            st["events_total"] = st.get("events_total", 0) + n
            st["events_with_field_errors"] = st.get("events_with_field_errors", 0) + errs
            ops = obs["ops"]
            blocked = any(a == "L" and b == "P" for a, b in zip(ops, ops[1:]))
            st["schedules_consumer_waited"] = st.get("schedules_consumer_waited", 0) + (1 if blocked else 0)
            st["schedules_producer_ahead"] = st.get("schedules_producer_ahead", 0) + (1 if "P P" in " ".join(ops) else 0)
            st["schedules_closed_early"] = st.get("schedules_closed_early", 0) + (1 if "C" in ops else 0)
            nontriv = n >= 2 and errs >= 1
        else:
            nontriv = True
        if not (sc["create"] == "ok" and n == 0):
            pass
        else:
            st["trivial_empty_streams"] = st.get("trivial_empty_streams", 0) + 1
        h = hashlib.sha1(json.dumps(_brief(sc), sort_keys=True).encode()).hexdigest()
        if nontriv and h not in seen:
            seen.add(h)
            rep.nontrivial += 1
    if drv:
        outs = fw.Driver(drv).run(lines)
        for (sc, obs), line, out in zip(metas, lines, outs):
            impl = _impl_line(sc, obs)
            model = out.split(" closed=")[0].rstrip() if out.startswith("stream") else out
            if sc["create"] == "ok" and out.startswith("stream"):
                if " full=1" not in out:
                    rep.disagreements.append(Disagreement("subscribe-model-drain", {"scenario": _brief(sc), "line": line}, impl, out))
            if impl != model:
                rep.disagreements.append(Disagreement("subscribe-outcomes", {"scenario": _brief(sc), "line": line}, impl, model))
    if metas:
        sc, obs = metas[len(metas) // 2]
        rep.samples.append({"doc": sc["doc"], "create": sc["create"], "events": len(sc["payloads"]), "term": sc["term"], "ops": " ".join(obs["ops"]), "impl": _impl_line(sc, obs)})
    return rep


def _sweep(rng, max_k, L):
    """Failure injected at every position k, three timing styles each, on freshly generated documents."""
    out = []
    for style in ("producer_first", "consumer_first", "lockstep"):
        doc, variables, first = L.gen_document(rng)
        pool = [L.gen_payload(rng, first) for _ in range(max_k)]
        for k in range(max_k + 1):
            for term in ("raise", "end"):
                total = k + 1
                if style == "producer_first":
                    plan = [["push", None]] * total + [["pull", None]] * total
                elif style == "consumer_first":
                    plan = [["pull", None], ["push", None]] * total
                else:
                    plan = [["push", 0], ["pull", 1]] * total
                out.append(
                    {"tag": f"sweep-{style}-{k}", "doc": doc, "variables": variables, "first": first, "create": "ok",
                     "payloads": pool[:k], "term": term, "src": rng.choice(L.SOURCE_KINDS), "plan": plan}
                )
    return out


def _corpus():
    d = fw.VERIF / "corpus" / "C07"
    out = []
    if d.is_dir():
        for f in sorted(d.glob("*.json")):
            try:
                sc = json.loads(f.read_text())
                out.append(sc.get("input", sc))
            except Exception:  # noqa: BLE001
                continue
    return out


def _scenarios(ctx, tag, n, max_events):
    from tools import c07_loop as L

    rng = ctx.sub_rng(tag)
    scs = [L.gen_scenario(rng, max_events, tag) for _ in range(n)]
    # every creation-failure kind at least once
    for kind in L.CREATE_FAILS:
        for _ in range(40):
            sc = L.gen_scenario(rng, 2, tag)
            if sc["create"] == kind:
                scs.append(sc)
                break
    scs += _sweep(rng, max_events if max_events <= 8 else 24, L)
    return scs


def explore(ctx) -> Report:
    fw.use_repo()
    quick = ctx.tier == "quick"
    n = 2500 if quick else 15000
    if ctx.escalate and quick:
        n *= 2
    max_events = 8 if quick else 40
    scs = _corpus() + _scenarios(ctx, "c07", n, max_events)
    drv = DRIVER if ctx.driver else None
    chunks = fw.chunked(scs, fw.WORKERS * 3)
    reps = fw.pmap(_work, [(c, drv) for c in chunks])
    rep = Report()
    for r in reps:
        rep.merge(r)
    rep.rule = (
        f"{len(scs)} scenarios: corpus + seeded generated (document, variables, 0..{max_events} payloads, end|raise, "
        "source kind, producer/consumer plan) + a sweep injecting the source failure at every position under three "
        "timing styles + every creation-failure kind; non-trivial = creation-failure scenarios and streams of >= 2 "
        "events of which >= 1 has field errors in its reference result; distinct by hash of the scenario"
    )
    rep.stats["scenarios"] = len(scs)
    return rep


def search(ctx, rep) -> Report:
    """More seeded scenarios with the property oracle (explore already evaluates it on every case)."""
    fw.use_repo()
    n = 6000 if ctx.tier == "quick" else 40000
    scs = [d.input["scenario"] for d in rep.disagreements[:50] if isinstance(d.input, dict) and "scenario" in d.input]
    scs += _scenarios(ctx, "c07-search", n, 8 if ctx.tier == "quick" else 40)
    chunks = fw.chunked(scs, fw.WORKERS * 3)
    out = Report()
    for r in fw.pmap(_work, [(c, None) for c in chunks]):
        out.failures += r.failures
        out.evaluations += r.evaluations
    out.notes.append(f"failing-input search: {len(scs)} further scenarios, {len(out.failures)} property failures")
    return out


def replay(ctx, payload) -> Report:
    fw.use_repo()
    sc = payload.get("input", payload)
    if "scenario" in sc:
        sc = sc["scenario"]
    return _work(([sc], DRIVER if ctx.driver else None))
