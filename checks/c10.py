"""C10 — every reported source location is the true line and column."""
from __future__ import annotations

import itertools

from tools import fw
from tools.fw import Disagreement, Failure, Report

ID = "C10"
PROPS = "Gql.Props.C10"
DRIVER = "drv_c10"
EXTRA_TARGETS = ["drv_lex"]
LEVEL = "proof"
LEVEL_TEXT = (
    "Lean theorems, for all strings and offsets with no bound: get_location equals the specification's "
    "line/column (LF, CR LF, CR only), never raises, every token the lexer returns carries the true line "
    "and column of its start (through every lexer branch incl. block strings), rendering a location from the "
    "same source never indexes out of range and excerpts the named line, location_offset arithmetic. The model is tied to source.py/print_location.py by "
    "an exhaustive correspondence run (all strings <= 4 quick / <= 5 thorough plus 400 k random strings of length 6..9 over the property's 11-symbol "
    "alphabet x all offsets); token line/column and syntax-error locations are checked on the implementation "
    "against the Lean spec (oracle) on the same space."
)
LEVEL_NOTE = (
    "Trusted: Lean kernel; hand-written model Gql/Text/Location.lean (tied by correspondence, not by "
    "translation); harness. Lexer line bookkeeping (token_linecol) is covered by the implementation-side "
    "theorem lexAll_line about the lexer model (tied by correspondence on the same space) and additionally by the "
    "implementation-side oracle; offsets strictly inside a CR LF pair are outside the statement."
)
TRUSTED = [
    "hand-written Lean model Gql/Text/Location.lean of Source.get_location and of the line "
    "selection/number arithmetic of print_source_location; tied to the code by the "
    "correspondence run below (every (string, offset) pair of the enumerated space)",
    "hand-written Lean model Gql/Text/Lexer.lean of lexer.py (index-based, crash-faithful); the token "
    "line/column theorem lexAll_line is about it; tied to the code by comparing the model's token list "
    "(kind, span, line, column, value) with the implementation's on every enumerated/generated string",
    "locations of validation/execution errors are derived by GraphQLError from node start offsets through "
    "get_location (modelled); that derivation itself is checked on the implementation only (validation and "
    "execution errors on documents with random line terminators / FF / LS / NEL between tokens and random "
    "location_offset, against Spec.lineCol and the offset arithmetic)",
]
ASSUMPTIONS = [
    "offsets strictly between a CR and its LF are outside the statement (only: no exception, line >= 1)",
    "CPython re.split / str slicing behave as modelled (exhaustively compared on the enumerated space)",
]
EXPLANATION = (
    "Theorems: getLocation = Spec.lineCol for all strings and offsets (unbounded), no crash, "
    "excerpt subscript in range, offset arithmetic. Correspondence: model vs Source.get_location, "
    "print_source_location; oracle: Spec.lineCol vs token line/column and error locations."
)

ALPHABET = ["a", " ", "\n", "\r", "\x0c", "\x85", " ", "#", '"', "{", "}"]


def strings_upto(n):
    for ln in range(n + 1):
        for t in itertools.product(ALPHABET, repeat=ln):
            yield "".join(t)


def _lex_all(body):
    """(tokens [(start,line,col)], error or None) from the implementation lexer."""
    from graphql.error import GraphQLSyntaxError
    from graphql.language import Lexer, Source, TokenKind

    lexer = Lexer(Source(body))
    toks = []
    err = None
    try:
        while True:
            tok = lexer.advance()
            toks.append((tok.start, tok.line, tok.column))
            if tok.kind == TokenKind.EOF:
                break
            if len(toks) > len(body) + 3:
                break
    except GraphQLSyntaxError as e:
        err = e
    return toks, err


def _work(args):
    bodies, seed, drv = args
    import random

    from graphql.language import Source, SourceLocation
    from graphql.language.print_location import print_source_location

    rng = random.Random(f"c10:{seed}:{len(bodies)}:{bodies[0] if bodies else ''}")
    rep = Report()
    driver = fw.Driver(drv) if drv else None
    lines = []
    meta = []
    impl_loc = {}
    for body in bodies:
        src = Source(body)
        c = fw.cps(body)
        for p in range(len(body) + 2):  # one offset beyond the end as well (no-crash only)
            try:
                loc = tuple(src.get_location(p))
                impl = f"ok {loc[0]} {loc[1]}"
            except Exception as e:  # noqa: BLE001
                loc = None
                impl = f"crash {type(e).__name__}"
            impl_loc[(body, p)] = (loc, impl)
            lines.append(f"loc {p} {c}")
            meta.append(("loc", body, p))
            lines.append(f"spec {p} {c}")
            meta.append(("spec", body, p))
    outs = driver.run(lines) if driver else [None] * len(lines)
    # lexer model correspondence (the token line/column theorem is about this model)
    if driver:
        from tools import lexcorr

        lexdrv = fw.Driver("drv_lex")
        mouts = lexcorr.model_lex(lexdrv, bodies)
        for body, m in zip(bodies, mouts):
            i = lexcorr.impl_lex(body)
            rep.evaluations += 1
            if i != m:
                rep.disagreements.append(Disagreement("lexer", {"body": body}, i, m))
    spec = {}
    for (kind, body, p), out in zip(meta, outs):
        if out is None:
            continue
        if kind == "loc":
            loc, impl = impl_loc[(body, p)]
            rep.evaluations += 1
            if impl != out:
                rep.disagreements.append(Disagreement("get_location", {"body": body, "offset": p}, impl, out))
        else:
            l, c, ins = (int(x) for x in out.split())
            spec[(body, p)] = (l, c, ins)
    # property oracle on the implementation (needs the spec through the driver)
    lines2, meta2 = [], []
    for body in bodies:
        src = Source(body)
        nontriv = any(ch in "\n\r\x0c\x85 " for ch in body)
        rep.nontrivial += 1 if nontriv else 0
        for p in range(len(body) + 1):
            loc, impl = impl_loc[(body, p)]
            sp = spec.get((body, p))
            if loc is None:
                rep.failures.append(Failure("get_location-raises", "Source.get_location raises", {"body": body, "offset": p}, impl, "a location", "C10-1b"))
                continue
            if sp is None:
                continue
            if sp[2] == 0 and loc != (sp[0], sp[1]):
                rep.failures.append(Failure("get_location-wrong", "get_location differs from the true line/column", {"body": body, "offset": p}, list(loc), [sp[0], sp[1]], "C10-1 getLocation_eq_spec"))
            if loc[0] < 1:
                rep.failures.append(Failure("get_location-line0", "line < 1", {"body": body, "offset": p}, list(loc), ">=1", "C10-1"))
            # rendering never fails, and excerpts the named line
            ol, oc = rng.choice([(1, 1), (1, 1), (3, 1), (1, 5), (7, 9)])
            try:
                txt = print_source_location(Source(body, "S", SourceLocation(ol, oc)), SourceLocation(*loc))
            except Exception as e:  # noqa: BLE001
                rep.failures.append(Failure("print_source_location-raises", "rendering a location from get_location raises", {"body": body, "offset": p, "location_offset": [ol, oc]}, type(e).__name__, "text", "C10-5 excerpt_no_crash"))
                continue
            rep.evaluations += 1
            head = txt.split("\n", 1)[0]
            lines2.append(f"rendered {ol} {oc} {loc[0]} {loc[1]}")
            meta2.append(("rendered", body, p, head, (ol, oc)))
            if len(body) <= 40:
                lines2.append(f"excerpt {oc - 1} {loc[0]} {fw.cps(body)}")
                meta2.append(("excerpt", body, p, txt, (ol, oc, loc)))
        # token line/column and syntax error locations against the spec
        toks, err = _lex_all(body)
        for start, line, col in toks:
            sp = spec.get((body, start))
            rep.evaluations += 1
            if sp and sp[2] == 0 and (line, col) != (sp[0], sp[1]):
                rep.failures.append(Failure("token-linecol", "token line/column differ from the true location", {"body": body, "token_start": start}, [line, col], [sp[0], sp[1]], "C10-2 token_linecol"))
        if err is not None:
            rep.evaluations += 1
            rep.stats["syntax_errors"] = rep.stats.get("syntax_errors", 0) + 1
            try:
                pos = err.positions[0]
                loc = tuple(err.locations[0])
                text = str(err)
                fmt = err.formatted
                ok_fmt = fmt["locations"] == [{"line": loc[0], "column": loc[1]}]
            except Exception as e:  # noqa: BLE001
                rep.failures.append(Failure("error-render-raises", "str(error)/formatted raises", {"body": body}, type(e).__name__, "text", "C10-5"))
                continue
            sp = spec.get((body, pos))
            if sp and sp[2] == 0 and loc != (sp[0], sp[1]):
                rep.failures.append(Failure("syntax-error-location", "syntax error location differs from the true location", {"body": body, "position": pos}, list(loc), [sp[0], sp[1]], "C10-3 error_locations"))
            if not ok_fmt or f":{loc[0]}:{loc[1]}" not in text:
                rep.failures.append(Failure("error-format-location", "formatted/str location differs from .locations", {"body": body}, [text, fmt], list(loc), "C10-3"))
    outs2 = driver.run(lines2) if driver else []
    for m, out in zip(meta2, outs2):
        if m[0] == "rendered":
            _, body, p, head, off = m
            a, b = out.split()
            want = f"S:{a}:{b}"
            if head != want:
                rep.disagreements.append(Disagreement("print_source_location.header", {"body": body, "offset": p, "location_offset": off}, head, want))
        else:
            _, body, p, txt, (ol, oc, loc) = m
            if not out.startswith("ok"):
                rep.disagreements.append(Disagreement("print_source_location.excerpt", {"body": body, "offset": p}, "text", out))
                continue
            want = fw.uncps(out[3:])
            line_num = loc[0] + ol - 1
            # the excerpt line is printed after "<line_num> |" (possibly sub-divided when > 120 chars; bodies here are short)
            marker = f"{line_num} |" + (" " + want if want else "")
            got_lines = [ln.lstrip(" ") for ln in txt.split("\n")[1:]]
            # lines of the excerpt may themselves contain characters str.split("\n") does not split on; compare by containment of the exact rendered line
            rendered = "\n".join(txt.split("\n")[1:])
            if marker not in "\n".join(got_lines) and marker not in rendered:
                rep.disagreements.append(Disagreement("print_source_location.excerpt", {"body": body, "offset": p, "location_offset": [ol, oc]}, txt, marker))
    if bodies:
        b = bodies[len(bodies) // 2]
        rep.samples.append({"body": b, "offsets": f"0..{len(b) + 1}", "impl": [impl_loc[(b, p)][1] for p in range(len(b) + 1)]})
    return rep


def _gen_random(rng, n, maxlen):
    out = []
    weights = [3, 2, 3, 3, 1, 1, 1, 1, 1, 1, 1]
    for _ in range(n):
        ln = rng.randint(5, maxlen)
        out.append("".join(rng.choices(ALPHABET, weights=weights, k=ln)))
    return out


def _gen_tokens(rng, n):
    """Token-structured sources: every lexer branch that touches the line bookkeeping
    (block strings with LF / CR / CR LF inside, comments, strings, numbers, names, punctuators)
    separated by random ignored material, so that tokens follow multi-line tokens on the same line."""
    seps = [" ", "  ", ",", "\n", "\r", "\r\n", "\n\n", "\r\r\n", "\t", "\ufeff", "", "", " \r", "\n "]
    nl = ["\n", "\r", "\r\n"]
    out = []
    for _ in range(n):
        parts = []
        for _ in range(rng.randint(1, 7)):
            k = rng.randrange(9)
            if k == 0:
                inner = "".join(rng.choice(["a", " ", "x y", "\x0c", "\u2028", '\\"""', '"', "\\"] + nl + nl) for _ in range(rng.randint(0, 6)))
                if inner.endswith('"') or inner.endswith("\\"):
                    inner += " "
                parts.append('"""' + inner + '"""')
            elif k == 1:
                parts.append('"' + "".join(rng.choice(["a", " ", "\\n", "\\u0041", "\x0c", "\x85", "é"]) for _ in range(rng.randint(0, 4))) + '"')
            elif k == 2:
                parts.append("#" + "".join(rng.choice(["c", " ", "\x0c", "\u2028", '"']) for _ in range(rng.randint(0, 4))) + rng.choice(nl))
            elif k == 3:
                parts.append(rng.choice(["0", "12", "-1", "1.5", "2e3", "1.0E-2"]))
            elif k == 4:
                parts.append(rng.choice(["a", "foo", "_x1", "query"]))
            elif k == 5:
                parts.append(rng.choice(["{", "}", "(", ")", "[", "]", ":", "!", "$", "@", "=", "|", "&", "..."]))
            elif k == 6:
                parts.append(rng.choice(["?", "'", "\x0c", "\u2028", "..", "1x", '"\\q"', '"\n', '"""a']))  # an error at this point
            else:
                parts.append(rng.choice(["a", "{", "1"]))
            parts.append(rng.choice(seps))
        out.append("".join(parts))
    return out


CORPUS = [
    "{\n?", '" " ?', "\x0c?", "a\r\n?", "a\r?", "\r\n\r\n?", " ?", "\x85\x85?", '"""\n\x0c\n"""?', "#\x0c\n?",
    "\x1c?", "\x1d\x1e?", "\x0b?", "{a\x1c\n ?}",
    '"""\r\n  doc\r\n""" type', '"""\r\n""" a', '"""\n\r""" a ?', '"""a\r""" b', '{\r  a ?\r}', 'a\n\r?', '\n a\r b ?',
]


_ERR_SCHEMA = """
type Query { a: Int b(x: Int!): String c: [Query!] boom: Int nn: Int! }
"""
_ERR_DOCS = [
    # validation errors at several nodes (unknown fields/arguments, wrong literals, unused/undefined variables)
    ["{", "a", "zz", "b", "(", "x", ":", '"s"', ")", "c", "{", "yy", "}", "}"],
    ["query", "Q", "(", "$v", ":", "Int", ")", "{", "b", "(", "x", ":", "$w", ")", "...", "F", "}", "fragment", "G", "on", "Query", "{", "a", "}"],
    ["{", "a", "a", ":", "b", "(", "x", ":", "1", ")", "c", "{", "c", "}", "}"],
    # execution errors (raising resolver `boom`, null at non-null `nn`) at several positions
    ["{", "a", "boom", "c", "{", "boom", "x1", ":", "boom", "}", "}"],
    ["{", "c", "{", "a", "nn", "}", "boom", "}"],
    ['"""d\r\n e"""', "query", "{", "boom", "c", "{", "boom", "}", "}"],
]
# FF / LS / NEL are not ignored characters: they may only occur inside comments (and strings)
_GAPS = [" ", "\n", "\r", "\r\n", ",", "\t", "  \n ", "\r\r\n", "#c\x85\n", "#\r", "#\x0c\u2028 x\r\n", " #\x0c\n"]


def _work_errors(args):
    """Locations of validation and execution errors (GraphQLError derives them from the nodes' start
    offsets through Source.get_location) against the Lean spec, on documents whose ignored material is
    full of line terminators and of characters str.splitlines would have split on."""
    cases, drv = args
    from graphql import build_schema, execute_sync, parse, validate
    from graphql.error import GraphQLSyntaxError
    from graphql.language import Source, SourceLocation

    rep = Report()
    driver = fw.Driver(drv) if drv else None
    schema = build_schema(_ERR_SCHEMA)

    def boom(*_a):
        raise RuntimeError("boom")

    schema.query_type.fields["boom"].resolve = boom
    schema.query_type.fields["c"].resolve = lambda *_a: [{}, {}]
    schema.query_type.fields["nn"].resolve = lambda *_a: None
    lines, metas = [], []
    for body, off in cases:
        try:
            doc = parse(Source(body, "S", SourceLocation(*off)))
        except GraphQLSyntaxError:
            continue
        errs = list(validate(schema, doc))
        kind = "validation"
        if not errs:
            errs = list(execute_sync(schema, doc, root_value={}).errors or [])
            kind = "execution"
        for e in errs:
            rep.evaluations += 1
            try:
                text = str(e)
                fmt = e.formatted
            except Exception as ex:  # noqa: BLE001
                rep.failures.append(Failure("error-render-raises", "str(error)/formatted raises", {"body": body, "location_offset": list(off)}, type(ex).__name__, "text", "C10-5"))
                continue
            for pos, loc in zip(e.positions or [], e.locations or []):
                lines.append(f"spec {pos} {fw.cps(body)}")
                metas.append((kind, body, off, pos, tuple(loc), text, fmt))
    outs = driver.run(lines) if driver else []
    for (kind, body, off, pos, loc, text, fmt), out in zip(metas, outs):
        l, c, ins = (int(x) for x in out.split())
        if ins == 0 and loc != (l, c):
            rep.failures.append(Failure(f"{kind}-error-location", f"{kind} error location differs from the true location of its node", {"body": body, "position": pos}, list(loc), [l, c], "C10-3 error_locations"))
        if {"line": loc[0], "column": loc[1]} not in (fmt.get("locations") or []):
            rep.failures.append(Failure("error-format-location", "formatted locations differ from .locations", {"body": body}, fmt, list(loc), "C10-3"))
        want_line = loc[0] + off[0] - 1
        want_col = loc[1] + (off[1] - 1 if loc[0] == 1 else 0)
        if f"S:{want_line}:{want_col}" not in text:
            rep.failures.append(Failure("error-text-location-offset", "str(error) does not show line/column shifted by location_offset", {"body": body, "location_offset": list(off), "location": list(loc)}, text[:300], f"S:{want_line}:{want_col}", "C10-4 rendered_offset"))
    if cases:
        rep.samples.append({"error_location_document": cases[0][0], "location_offset": list(cases[0][1])})
    rep.stats["error_location_documents"] = len(cases)
    return rep


def _gen_error_docs(rng, n):
    out = []
    for _ in range(n):
        toks = rng.choice(_ERR_DOCS)
        body = rng.choice(["", "\n", "\r\n#x\r", "#\x0c\r"])
        for t in toks:
            body += t + rng.choice(_GAPS)
        out.append((body, rng.choice([(1, 1), (1, 1), (3, 1), (1, 7), (5, 4)])))
    return out


def explore(ctx) -> Report:
    fw.use_repo()
    # thorough: exhaustive to length 5 (177 k strings x all offsets) + 400 k random strings of length 6..9;
    # the exhaustive length-6 space (1.8 M strings) took 26 min on a loaded machine
    n = 4 if ctx.tier == "quick" else 5
    if ctx.escalate and ctx.tier == "quick":
        n = 5
    bodies = list(CORPUS) + list(strings_upto(n))
    rng = ctx.sub_rng("c10")
    bodies += _gen_random(rng, 3000 if ctx.tier == "quick" else 60000, 14)
    if ctx.tier != "quick":
        bodies += ["".join(rng.choices(ALPHABET, k=rng.randint(6, 9))) for _ in range(400000)]
    bodies += _gen_tokens(rng, 4000 if ctx.tier == "quick" else 80000)
    # long lines (minified-document branch of print_source_location)
    bodies += ["a" * rng.randint(100, 200) + rng.choice(["\n", "\r\n", "\x0c"]) + "?" for _ in range(10)]
    chunks = fw.chunked(bodies, fw.WORKERS * 4)
    drv = DRIVER if ctx.driver else None
    reps = fw.pmap(_work, [(c, ctx.seed, drv) for c in chunks])
    rep = Report()
    for r in reps:
        rep.merge(r)
    edocs = _gen_error_docs(rng, 600 if ctx.tier == "quick" else 12000)
    for r in fw.pmap(_work_errors, [(c, drv) for c in fw.chunked(edocs, fw.WORKERS)]):
        rep.merge(r)
    rep.rule = (
        f"all strings of length <= {n} over the 11-symbol alphabet {ALPHABET!r} x all offsets 0..len+1 (exhaustive), "
        "plus corpus, seeded random strings of length 5..14 and seeded token-structured sources (block strings with LF/CR/CR LF inside, comments, strings, numbers, names, punctuators, error points, random ignored separators); non-trivial = string contains a line terminator "
        "or one of the non-terminators FF/NEL/LS that str.splitlines would split on; distinct by construction"
    )
    rep.exhaustive = True
    rep.stats["strings"] = len(bodies)
    return rep


def search(ctx, rep) -> Report:
    # the exploration already evaluates the property oracle on the implementation for every
    # case; escalate to the next length when the model could not be built
    if ctx.driver is None:
        return Report(notes=["model driver unavailable: property oracle needs the Lean spec; no search possible"])
    return Report()


def replay(ctx, payload) -> Report:
    fw.use_repo()
    body = payload["input"]["body"]
    return _work(([body], ctx.seed, DRIVER if ctx.driver else None))
