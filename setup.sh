#!/bin/bash
# Offline setup after a fresh restore: build the Lean library, all drivers and property modules.
set -e
cd "$(dirname "$0")/lean"
lake build 2>&1 | tail -3
