#!/bin/bash
# Offline setup after a fresh restore: build every property module (which pulls in its models, specs and
# proofs) and every line-protocol driver.
set -e
cd "$(dirname "$0")/lean"
DRIVERS=$(grep '^name = "drv_' lakefile.toml | sed 's/name = "\(.*\)"/\1/')
PROPS=$(ls Gql/Props/C*.lean | sed 's#/#.#g; s#\.lean$##')
lake build Gql $PROPS $DRIVERS > /tmp/verif_setup.log 2>&1 || { grep -E "error" /tmp/verif_setup.log | head -20; tail -5 /tmp/verif_setup.log; exit 1; }
tail -1 /tmp/verif_setup.log
