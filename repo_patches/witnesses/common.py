"""Shared by the witness scripts: usage `PYTHONPATH=<repo>/src python w<N>_*.py` (exit 0 = no exception escapes)."""
import sys
from graphql import build_schema, graphql_sync

SCHEMA = build_schema(
    "type Query { a: Int u: U f(x: In): Int } type Subscription { a: Int } union U = A | B "
    "type A { x: Int } type B { y: Int } input In { k: Int } "
    "input Big { alpha: Int beta: Int istanbul: Int ab: Int id: ID } type Mutation { m(v: Big): Int }"
)


def run(name, source, **kw):
    try:
        r = graphql_sync(SCHEMA, source, **kw)
    except Exception as e:  # noqa: BLE001
        print(f"{name}: ESCAPES {type(e).__name__}: {str(e)[:120]}")
        return False
    print(f"{name}: ok data={r.data!r} errors={[e.message[:80] for e in (r.errors or [])]}")
    return True


def finish(results):
    sys.exit(0 if all(results) else 1)
