from common import run, finish
q = "mutation M($v: Big) { m(v: $v) }"
finish([
    run("key-dotted-I", q, variable_values={"v": {"İ": 1}}),
    run("key-dotted-I-long", q, variable_values={"v": {"İstanbul": 1}}),
    run("key-two-dotted-I", q, variable_values={"v": {"İİ": 1}}),
    run("key-sharp-s", q, variable_values={"v": {"ß": 1, "ǅ": 2}}),
    run("field-dotted-I-literal-ascii", "{ istanbuI }"),
])
