"""Witnesses for the five default-value fixes (cb6308a, 4b215c3, 12289fa, a3705d3, db52575): C17 / C18.

usage: python w7_unprintable_defaults.py <src-dir>
For each programmatic default: either validate_schema reports it, or print_schema -> build_schema round-trips
and the full introspection result rebuilds a client schema that prints identically.  Exit 1 otherwise."""
import math
import sys

sys.path.insert(0, sys.argv[1])
from graphql import (  # noqa: E402
    GraphQLArgument, GraphQLField, GraphQLFloat, GraphQLID, GraphQLInt, GraphQLNonNull, GraphQLObjectType,
    GraphQLScalarType, GraphQLSchema, GraphQLString, validate_schema,
)
from graphql.type import GraphQLDefaultInput  # noqa: E402
from graphql.utilities import build_client_schema, build_schema, introspection_from_schema, print_schema  # noqa: E402

J = GraphQLScalarType("J")
bad = []


def mk(arg):
    return GraphQLSchema(GraphQLObjectType("Query", {"f": GraphQLField(GraphQLInt, args={"a": arg})}))


def trial(name, arg_factory):
    s = mk(arg_factory())
    if validate_schema(s):
        return
    try:
        txt = print_schema(s)
        s2 = build_schema(txt)
        if validate_schema(s2) or print_schema(s2) != txt:
            bad.append((name, "rebuilt schema invalid or prints differently"))
        c = build_client_schema(introspection_from_schema(s))
        if print_schema(c) != txt:
            bad.append((name, "client schema prints differently"))
    except Exception as e:  # noqa: BLE001
        bad.append((name, f"{type(e).__name__}"))


D = lambda t, v: (lambda: GraphQLArgument(t, default=GraphQLDefaultInput(value=v)))  # noqa: E731
trial("mapping key that is not a Name at a custom scalar", D(J, {"a b": 1}))
trial("nan at J! (null literal at a non-null type)", D(GraphQLNonNull(J), math.nan))
trial("lone surrogate in a String default", D(GraphQLString, "x\ud800y"))
trial("lone surrogate in an ID default", D(GraphQLID, "x\ud800y"))
trial("lone surrogate in a custom scalar default", D(J, "x\ud800y"))
trial("list/mapping default of a custom scalar", D(J, [1, {"k": 2}]))
trial("internal list/mapping default_value of a custom scalar (ast_from_value)", lambda: GraphQLArgument(J, default_value=[1, {"k": 2}]))
# Observation O4 (not claimed): the deprecated internal `default_value=` config is never inspected by validate_schema;
# GraphQLArgument(GraphQLString, default_value="x\ud800y") still makes print_schema raise TypeError.
for b in bad:
    print("FAIL", b)
sys.exit(1 if bad else 0)
