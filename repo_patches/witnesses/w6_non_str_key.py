from common import run, finish
q = "mutation M($v: Big) { m(v: $v) }"
finish([
    run("int-key", q, variable_values={"v": {1: 2}}),
    run("none-key", q, variable_values={"v": {None: 2, ("t",): 1}}),
])
