from common import run, finish
k = "k" + "9" * 5000
finish([
    run("object-key-digits", "{ f(x:{%s:1}) f(x:{%s:1}) }" % (k, k)),
    run("object-key-digits-2", "{ f(x:{%s:1, a%s:2}) f(x:{a%s:2, %s:1}) }" % (k, "1" * 4400, "1" * 4400, k)),
])
