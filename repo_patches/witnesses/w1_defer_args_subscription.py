from common import run, finish
finish([
    run("defer-if-string", 'subscription { ... @defer(if: "x") { a } }'),
    run("defer-label-int", "subscription { ... @defer(label: 5) { a } }"),
    run("defer-if-null", "subscription { ... @defer(if: null) { a } }"),
    run("skip-if-string", 'subscription { a @skip(if: "x") }'),
])
