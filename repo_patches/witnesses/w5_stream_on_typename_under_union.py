from common import run, finish
finish([
    run("stream-typename-union", "{ u { __typename @stream } }"),
    run("stream-typename-union-args", "{ u { __typename @stream(initialCount: 1) } }"),
    run("stream-schema-root", "{ __schema @stream { queryType { name } } }"),
])
