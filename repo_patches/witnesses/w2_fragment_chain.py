from common import run, finish
def chain(n):
    return "{ ...F0 } " + " ".join(f"fragment F{i} on Query {{ ...F{i+1} }}" for i in range(n)) + f" fragment F{n} on Query {{ a }}"
finish([run("chain-200", chain(200)), run("chain-3000", chain(3000))])
